//! C20 — the CLI's type registry is a pure, closed function of the crate description.
//!
//! Generated: a bundled description and a meaning-preserving transformation of it (consistent
//! renumbering of every rustdoc item id, renumbering of external crate ids, fresh hash order by
//! re-deserialisation). Oracles: (a) metamorphic — the registry of the transformed description
//! equals the registry of the original; (b) closed — every referenced type name is defined;
//! (c) enum variant indices are 0..n-1 and follow the declaration order read independently from
//! the description; (d) the shipped protocol types equal the schema traced from their real serde
//! implementations.

mod remap;

use proptest::prelude::*;
use rustdoc_types::{Crate, ItemEnum};
use serde::{Deserialize, Serialize};
use serde_json::Value;
use std::cell::RefCell;
use std::collections::{BTreeMap, HashMap, HashSet};
use std::sync::OnceLock;
use vkit::{panics::catch, Mode, Outcome, Report, Stats};

pub const EXAMPLES: &[&str] = &["bridge_echo", "cat_facts", "counter", "hello_world", "notes", "simple_counter", "tap_to_pay"];

#[derive(Debug, Clone, PartialEq, Eq, Hash, Serialize, Deserialize)]
pub struct Case {
    pub example: usize,
    pub renumber_items: bool,
    pub renumber_crates: bool,
    pub seed: u64,
    /// how item ids are renumbered: 0 = injectively into random 31-bit numbers, 1 = a random
    /// permutation of 0..n in every crate (so ids of different crates collide all the time),
    /// 2 = order reversed (max + min - id), 3 = shifted by a constant, 4 = as shipped except for
    /// 2-12 targeted swaps per crate that give an item the number which an item of the same kind
    /// (half of the time also of the same name) carries in ANOTHER crate of the same run
    #[serde(default)]
    pub numbering: u8,
    /// instead of a bundled description: a generated graph of small synthetic crates. Crate i holds one
    /// operation type `Op<i>` (a struct with `impl Operation`, a root of the registry) whose k-th field is a
    /// `u32` (None) or has the type `Op<j>` of another crate j (Some(j)); crate 0 is the root crate. Every
    /// crate uses the same item ids. Oracle: exactly the crates reachable from crate 0 are loaded, each
    /// once, and the registry holds exactly their types, described field by field as generated (closed).
    #[serde(default)]
    pub graph: Option<Vec<Vec<Option<usize>>>>,
}

fn fixtures() -> String {
    format!("{}/crux_cli/src/codegen/fixtures", std::env::var("VERIF_REPO").unwrap_or_else(|_| "/repo".into()))
}

/// every call deserialises afresh, i.e. into maps with a fresh hash order
fn raw(name: &str) -> anyhow::Result<Crate> {
    let base = fixtures();
    let nested = format!("{base}/{name}/rustdoc.json");
    let path = if std::path::Path::new(&nested).exists() { nested } else { format!("{base}/{name}.json") };
    let bytes = std::fs::read(&path).map_err(|e| anyhow::anyhow!("cannot load the description of {name}: {e}"))?;
    Ok(serde_json::from_slice(&bytes)?)
}

fn name_hash(name: &str) -> u64 {
    vkit::fnv(name.as_bytes())
}

struct Rng(u64);
impl Rng {
    fn next(&mut self) -> u64 {
        self.0 = self.0.wrapping_add(0x9E37_79B9_7F4A_7C15);
        vkit::splitmix(self.0)
    }
}

/// all item ids occurring anywhere in the description (found by serialising through the adapter
/// until no id is unmapped, so no occurrence can be missed)
fn all_ids(c: &Crate) -> anyhow::Result<HashSet<u32>> {
    let mut ids: HashSet<u32> = c.index.keys().map(|k| k.0).chain(c.paths.keys().map(|k| k.0)).collect();
    ids.insert(c.root.0);
    loop {
        remap::MAP.with(|m| {
            let mut m = m.borrow_mut();
            m.clear();
            m.extend(ids.iter().map(|i| (*i, *i)));
        });
        match serde_json::to_value(remap::W(c)) {
            Ok(_) => return Ok(ids),
            Err(e) => {
                let msg = e.to_string();
                let id: u32 = msg.rsplit(' ').next().unwrap_or("").parse().map_err(|_| anyhow::anyhow!("{msg}"))?;
                ids.insert(id);
            }
        }
    }
}

/// the kinds of item the registry builder follows edges between
fn kind_of(inner: &ItemEnum) -> Option<u8> {
    Some(match inner {
        ItemEnum::Struct(_) => 0,
        ItemEnum::Enum(_) => 1,
        ItemEnum::Impl(_) => 2,
        ItemEnum::AssocType { .. } => 3,
        ItemEnum::StructField(_) => 4,
        ItemEnum::Variant(_) => 5,
        ItemEnum::Trait(_) => 6,
        ItemEnum::TypeAlias(_) => 7,
        _ => return None,
    })
}
const KINDS: u8 = 8;
const LIBRARIES: &[&str] = &["crux_core", "crux_http", "crux_kv", "crux_platform", "crux_time"];

/// (kind, name, id) of the local items of a bundled description, as shipped
fn catalogue(name: &str) -> std::sync::Arc<Vec<(u8, Option<String>, u32)>> {
    static CAT: OnceLock<std::sync::Mutex<HashMap<String, std::sync::Arc<Vec<(u8, Option<String>, u32)>>>>> = OnceLock::new();
    let cat = CAT.get_or_init(Default::default);
    if let Some(c) = cat.lock().unwrap().get(name) {
        return c.clone();
    }
    let mut v: Vec<(u8, Option<String>, u32)> = raw(name).map(|c| c.index.iter().filter(|(_, it)| it.crate_id == 0).filter_map(|(id, it)| kind_of(&it.inner).map(|k| (k, it.name.clone(), id.0))).collect()).unwrap_or_default();
    v.sort();
    let v = std::sync::Arc::new(v);
    cat.lock().unwrap().insert(name.to_string(), v.clone());
    v
}

/// numbering 4: the identity except for a few swaps that make an item of this crate carry the number an
/// item of the same kind carries in another crate of the run (ids are per crate: a consistent renumbering)
fn colliding_swaps(name: &str, example: &str, sorted: &[u32], rng: &mut Rng) -> HashMap<u32, u32> {
    let mut map: HashMap<u32, u32> = sorted.iter().map(|i| (*i, *i)).collect();
    let mine = catalogue(name);
    let others: Vec<std::sync::Arc<Vec<(u8, Option<String>, u32)>>> = LIBRARIES.iter().copied().chain(std::iter::once(example)).filter(|o| *o != name).map(catalogue).collect();
    let mut holder: HashMap<u32, u32> = sorted.iter().map(|i| (*i, *i)).collect(); // new number -> old id
    for _ in 0..2 + rng.next() % 11 {
        let kind = (rng.next() % KINDS as u64) as u8;
        let same_name = rng.next() % 2 == 0;
        let xs: Vec<&(u8, Option<String>, u32)> = mine.iter().filter(|x| x.0 == kind).collect();
        let ys: Vec<&(u8, Option<String>, u32)> = others.iter().flat_map(|o| o.iter()).filter(|y| y.0 == kind).collect();
        if xs.is_empty() || ys.is_empty() {
            continue;
        }
        let (x, y) = if same_name {
            let shared: Vec<&&(u8, Option<String>, u32)> = xs.iter().filter(|x| x.1.is_some() && ys.iter().any(|y| y.1 == x.1)).collect();
            if shared.is_empty() {
                continue;
            }
            let x: &(u8, Option<String>, u32) = shared[(rng.next() % shared.len() as u64) as usize];
            let named: Vec<&&(u8, Option<String>, u32)> = ys.iter().filter(|y| y.1 == x.1).collect();
            let y: &(u8, Option<String>, u32) = named[(rng.next() % named.len() as u64) as usize];
            (x, y)
        } else {
            (xs[(rng.next() % xs.len() as u64) as usize], ys[(rng.next() % ys.len() as u64) as usize])
        };
        // x takes the number y has in its own crate; whoever holds that number here takes x's
        let (x_now, target) = (map[&x.2], y.2);
        if x_now == target {
            continue;
        }
        match holder.get(&target).copied() {
            Some(z) => {
                map.insert(z, x_now);
                holder.insert(x_now, z);
            }
            None => {
                holder.remove(&x_now);
            }
        }
        map.insert(x.2, target);
        holder.insert(target, x.2);
    }
    map
}

fn transform(name: &str, case: &Case) -> anyhow::Result<(Crate, usize)> {
    let mut c = raw(name)?;
    let mut rng = Rng(case.seed ^ name_hash(name));
    let mut moved = 0;
    if case.renumber_items {
        let mut sorted: Vec<u32> = all_ids(&c)?.into_iter().collect();
        sorted.sort_unstable();
        let mut map = HashMap::new();
        match case.numbering % 5 {
            4 => map = colliding_swaps(name, EXAMPLES[case.example], &sorted, &mut rng),
            0 => {
                let mut used = HashSet::new();
                for i in sorted {
                    loop {
                        let n = (rng.next() >> 33) as u32;
                        if used.insert(n) {
                            map.insert(i, n);
                            break;
                        }
                    }
                }
            }
            1 => {
                // Fisher-Yates over 0..n
                let mut perm: Vec<u32> = (0..sorted.len() as u32).collect();
                for k in (1..perm.len()).rev() {
                    let j = (rng.next() % (k as u64 + 1)) as usize;
                    perm.swap(k, j);
                }
                map.extend(sorted.iter().copied().zip(perm));
            }
            2 => {
                let (lo, hi) = (*sorted.first().unwrap_or(&0), *sorted.last().unwrap_or(&0));
                map.extend(sorted.iter().map(|i| (*i, hi - (*i - lo))));
            }
            _ => {
                let shift = 1 + (rng.next() % 1_000_000) as u32;
                map.extend(sorted.iter().map(|i| (*i, *i + shift)));
            }
        }
        moved += map.iter().filter(|(a, b)| a != b).count();
        remap::MAP.with(|m| *m.borrow_mut() = map);
        c = serde_json::from_value(serde_json::to_value(remap::W(&c))?)?;
    }
    if case.renumber_crates {
        let mut keys: Vec<u32> = c.external_crates.keys().copied().filter(|k| *k != 0).collect();
        keys.sort_unstable();
        let mut used: HashSet<u32> = HashSet::from([0]);
        let mut cmap: HashMap<u32, u32> = HashMap::from([(0, 0)]);
        for k in keys {
            loop {
                let n = 1 + (rng.next() >> 40) as u32 % 100_000;
                if used.insert(n) {
                    cmap.insert(k, n);
                    break;
                }
            }
        }
        c.external_crates = std::mem::take(&mut c.external_crates).into_iter().map(|(k, v)| (*cmap.get(&k).unwrap_or(&k), v)).collect();
        for it in c.index.values_mut() {
            if let Some(n) = cmap.get(&it.crate_id) {
                it.crate_id = *n;
            }
        }
        for s in c.paths.values_mut() {
            if let Some(n) = cmap.get(&s.crate_id) {
                s.crate_id = *n;
            }
        }
    }
    Ok((c, moved))
}

// ---- generated crate graphs
fn synthetic_crate(me: usize, fields: &[Option<usize>]) -> anyhow::Result<Crate> {
    use serde_json::json;
    let no_generics = json!({"params": [], "where_predicates": []});
    let item = |id: u32, name: Option<String>, inner: Value| (id.to_string(), json!({"id": id, "crate_id": 0, "name": name, "span": null, "visibility": "public", "docs": null, "links": {}, "attrs": [], "deprecation": null, "inner": inner}));
    let mut index = serde_json::Map::new();
    let mut paths = serde_json::Map::new();
    let mut externals = serde_json::Map::new();
    let mut deps: Vec<usize> = vec![];
    let field_ids: Vec<u32> = (0..fields.len() as u32).map(|k| 100 + k).collect();
    for (k, f) in fields.iter().enumerate() {
        let ty = match f {
            None => json!({"primitive": "u32"}),
            Some(j) => {
                if !deps.contains(j) {
                    deps.push(*j);
                }
                let crate_id = 1 + deps.iter().position(|d| d == j).unwrap() as u32;
                let pid = 200 + k as u32;
                paths.insert(pid.to_string(), json!({"crate_id": crate_id, "path": [format!("c{j}"), format!("Op{j}")], "kind": "struct"}));
                externals.insert(crate_id.to_string(), json!({"name": format!("c{j}"), "html_root_url": null}));
                json!({"resolved_path": {"path": format!("c{j}::Op{j}"), "id": pid, "args": null}})
            }
        };
        let (id, it) = item(field_ids[k], Some(format!("f{k}")), json!({"struct_field": ty}));
        index.insert(id, it);
    }
    let (id, it) = item(1, Some(format!("Op{me}")), json!({"struct": {"kind": {"plain": {"fields": field_ids, "has_stripped_fields": false}}, "generics": no_generics, "impls": [3]}}));
    index.insert(id, it);
    let (id, it) = item(3, None, json!({"impl": {"is_unsafe": false, "generics": no_generics, "provided_trait_methods": [], "trait": {"path": "Operation", "id": 4, "args": null}, "for": {"resolved_path": {"path": format!("Op{me}"), "id": 1, "args": null}}, "items": [], "is_negative": false, "is_synthetic": false, "blanket_impl": null}}));
    index.insert(id, it);
    Ok(serde_json::from_value(json!({"root": 0, "crate_version": null, "includes_private": true, "index": index, "paths": paths, "external_crates": externals, "format_version": 43}))?)
}

/// Ok(number of crates reachable from the root)
fn check_graph(graph: &[Vec<Option<usize>>]) -> Result<usize, String> {
    let n = graph.len();
    let loaded = RefCell::new(Vec::<String>::new());
    let reg = catch(|| {
        crux_cli::codegen::verif_run("c0", |name| {
            loaded.borrow_mut().push(name.to_string());
            let i: usize = name.strip_prefix('c').and_then(|x| x.parse().ok()).filter(|i| *i < n).ok_or_else(|| anyhow::anyhow!("the builder asked for a crate nobody mentions: {name}"))?;
            synthetic_crate(i, &graph[i])
        })
        .map_err(|e| format!("{e:#}"))
        .and_then(|r| serde_json::to_value(r).map_err(|e| e.to_string()))
    })
    .map_err(|p| format!("[error] the registry builder panicked on a generated crate graph: {p}"))?
    .map_err(|e| format!("[error] generated crate graph: {e}"))?;
    // reachability, independently
    let mut reach = vec![false; n];
    let mut stack = vec![0usize];
    while let Some(i) = stack.pop() {
        if std::mem::replace(&mut reach[i], true) {
            continue;
        }
        stack.extend(graph[i].iter().flatten().copied());
    }
    let mut want = serde_json::Map::new();
    for i in (0..n).filter(|i| reach[*i]) {
        let fields: Vec<Value> = graph[i].iter().enumerate().map(|(k, f)| match f {
            None => serde_json::json!({ format!("f{k}"): "U32" }),
            Some(j) => serde_json::json!({ format!("f{k}"): {"TYPENAME": format!("Op{j}")} }),
        }).collect();
        want.insert(format!("Op{i}"), if fields.is_empty() { serde_json::json!("UNITSTRUCT") } else { serde_json::json!({"STRUCT": fields}) });
    }
    let mut got = reg.as_object().cloned().unwrap_or_default();
    got.remove("Request"); // the synthetic wrapper around an app's Effect; these crates have no app
    for (name, fmt) in &want {
        match got.get(name) {
            None => return Err(format!("[not-closed] generated crate graph {graph:?}: type {name} is reachable from the root crate (and referenced) but not defined in the registry; crates loaded: {:?}", loaded.borrow())),
            Some(g) if g != fmt => return Err(format!("[graph-type-differs] generated crate graph {graph:?}: {name} is described as {g}, generated as {fmt}")),
            _ => {}
        }
    }
    if let Some(extra) = got.keys().find(|k| !want.contains_key(*k)) {
        return Err(format!("[graph-extra-type] generated crate graph {graph:?}: the registry defines {extra}, which is not reachable from the root crate"));
    }
    let mut l = loaded.borrow().clone();
    l.sort();
    let mut w: Vec<String> = (0..n).filter(|i| reach[*i]).map(|i| format!("c{i}")).collect();
    w.sort();
    if l != w {
        return Err(format!("[graph-crates-loaded] generated crate graph {graph:?}: crates loaded {:?}, reachable from the root {w:?} (each must be loaded exactly once)", loaded.borrow()));
    }
    Ok(w.len())
}

struct RunOut {
    registry: Value,
    load_order: Vec<String>,
    moved: usize,
    crates: Vec<(String, Crate)>,
}

fn run(case: &Case, keep_crates: bool) -> Result<RunOut, String> {
    let order = RefCell::new(vec![]);
    let moved = RefCell::new(0usize);
    let crates = RefCell::new(vec![]);
    let reg = catch(|| {
        crux_cli::codegen::verif_run(EXAMPLES[case.example], |n| {
            order.borrow_mut().push(n.to_string());
            let (c, m) = transform(n, case)?;
            *moved.borrow_mut() += m;
            if keep_crates {
                crates.borrow_mut().push((n.to_string(), raw(n)?));
            }
            Ok(c)
        })
        .map_err(|e| format!("{e:#}"))
        .and_then(|r| serde_json::to_value(r).map_err(|e| e.to_string()))
    })
    .map_err(|p| format!("the registry builder panicked: {p}"))??;
    Ok(RunOut { registry: reg, load_order: order.into_inner(), moved: moved.into_inner(), crates: crates.into_inner() })
}

struct Base {
    registry: Value,
    load_order: Vec<String>,
}
static BASES: OnceLock<Vec<Base>> = OnceLock::new();

fn first_difference(a: &Value, b: &Value) -> String {
    let (a, b) = (a.as_object().unwrap(), b.as_object().unwrap());
    for k in a.keys().chain(b.keys()) {
        if a.get(k) != b.get(k) {
            let show = |v: Option<&Value>| v.map(|x| x.to_string().chars().take(300).collect::<String>()).unwrap_or_else(|| "<absent>".into());
            return format!("container {k}: {} vs {}", show(a.get(k)), show(b.get(k)));
        }
    }
    "no difference".into()
}

// ---- (b) closed
fn referenced_names(v: &Value, out: &mut Vec<String>) {
    match v {
        Value::Object(m) => {
            for (k, x) in m {
                if k == "TYPENAME" {
                    if let Some(s) = x.as_str() {
                        out.push(s.to_string());
                    }
                }
                referenced_names(x, out);
            }
        }
        Value::Array(a) => a.iter().for_each(|x| referenced_names(x, out)),
        _ => {}
    }
}
fn closed(reg: &Value) -> Result<(), String> {
    let mut names = vec![];
    referenced_names(reg, &mut names);
    let keys = reg.as_object().unwrap();
    for n in names {
        if !keys.contains_key(&n) {
            return Err(format!("type {n} is referenced but not defined in the registry"));
        }
    }
    Ok(())
}

// ---- (c) variant indices and declaration order
fn serde_attr<'a>(attrs: &'a [String], key: &str) -> Option<&'a str> {
    attrs.iter().find(|a| a.contains("serde(") && a.contains(key)).map(String::as_str)
}
/// (checked fully, checked for contiguity only)
fn variant_order(reg: &Value, crates: &[(String, Crate)]) -> Result<(usize, usize), String> {
    let (mut full, mut partial) = (0, 0);
    for (name, fmt) in reg.as_object().unwrap() {
        let Some(variants) = fmt.get("ENUM").and_then(Value::as_object) else { continue };
        let mut idx: Vec<u32> = variants.keys().map(|k| k.parse::<u32>().map_err(|_| format!("{name}: variant index {k:?} is not a number"))).collect::<Result<_, _>>()?;
        idx.sort_unstable();
        if idx != (0..idx.len() as u32).collect::<Vec<_>>() {
            return Err(format!("{name}: variant indices {idx:?} are not contiguous from zero"));
        }
        let got: Vec<String> = (0..idx.len()).map(|i| variants[&i.to_string()].as_object().and_then(|o| o.keys().next().cloned()).unwrap_or_default()).collect();
        // the declaration, read independently from the description
        let mut declared: Vec<Vec<String>> = vec![];
        let mut renamed = false;
        for (_, c) in crates {
            for item in c.index.values() {
                let ItemEnum::Enum(e) = &item.inner else { continue };
                if item.name.as_deref() != Some(name.as_str()) {
                    continue;
                }
                renamed |= serde_attr(&item.attrs, "rename").is_some();
                let mut names = vec![];
                for vid in &e.variants {
                    let Some(v) = c.index.get(vid) else { continue };
                    if serde_attr(&v.attrs, "skip").is_some() {
                        continue;
                    }
                    renamed |= serde_attr(&v.attrs, "rename").is_some();
                    names.push(v.name.clone().unwrap_or_default());
                }
                if !declared.contains(&names) {
                    declared.push(names);
                }
            }
        }
        if declared.len() == 1 && !renamed {
            if declared[0] != got {
                return Err(format!("{name}: variants are numbered {got:?}, the declaration order is {:?}", declared[0]));
            }
            full += 1;
        } else {
            partial += 1;
        }
    }
    Ok((full, partial))
}

// ---- (d) the schema traced from the real serde implementations
fn traced() -> &'static serde_json::Map<String, Value> {
    static TRACED: OnceLock<serde_json::Map<String, Value>> = OnceLock::new();
    TRACED.get_or_init(|| {
        use crux_core::typegen::{State, TypeGen};
        let mut gen = TypeGen::new();
        gen.register_type::<crux_http::HttpError>().unwrap();
        gen.register_type::<crux_http::protocol::HttpRequest>().unwrap();
        gen.register_type::<crux_http::protocol::HttpResult>().unwrap();
        gen.register_type::<crux_kv::value::Value>().unwrap();
        gen.register_type::<crux_kv::error::KeyValueError>().unwrap();
        gen.register_type::<crux_kv::KeyValueResponse>().unwrap();
        gen.register_type::<crux_kv::KeyValueOperation>().unwrap();
        gen.register_type::<crux_kv::KeyValueResult>().unwrap();
        gen.register_type::<crux_time::TimeRequest>().unwrap();
        gen.register_type::<crux_time::TimeResponse>().unwrap();
        gen.register_type::<crux_platform::PlatformRequest>().unwrap();
        gen.register_type::<crux_platform::PlatformResponse>().unwrap();
        gen.register_type::<crux_core::render::RenderOperation>().unwrap();
        let State::Registering(tracer, _) = std::mem::replace(&mut gen.state, State::Generating(Default::default())) else { unreachable!() };
        serde_json::to_value(tracer.registry().expect("tracing the shipped protocol types")).unwrap().as_object().unwrap().clone()
    })
}
fn agrees_with_traced(reg: &Value) -> Result<usize, String> {
    let mut n = 0;
    for (k, v) in reg.as_object().unwrap() {
        if let Some(t) = traced().get(k) {
            if t != v {
                return Err(format!("protocol type {k}: the CLI derives {}, tracing its serde implementation gives {}", v.to_string().chars().take(400).collect::<String>(), t.to_string().chars().take(400).collect::<String>()));
            }
            n += 1;
        }
    }
    Ok(n)
}

/// 2-6 crates; the fields of crate i refer to crates other than i (cycles between crates are allowed: a
/// description may mention a crate that mentions it back)
pub fn graph_strategy() -> BoxedStrategy<Case> {
    (2usize..7)
        .prop_flat_map(|n| prop::collection::vec(prop::collection::vec(proptest::option::weighted(0.6, 0..n), 1..4), n))
        .prop_map(|mut g| {
            for (i, fields) in g.iter_mut().enumerate() {
                // no type refers to its own crate through an external path; every type has a field (how a
                // field-less struct is described is not part of what is generated here)
                for f in fields.iter_mut() {
                    if *f == Some(i) {
                        *f = None;
                    }
                }
            }
            Case { example: 0, renumber_items: false, renumber_crates: false, seed: 0, numbering: 0, graph: Some(g) }
        })
        .boxed()
}

pub fn strategy() -> BoxedStrategy<Case> {
    (0..EXAMPLES.len(), prop::bool::weighted(0.85), any::<bool>(), any::<u64>(), prop_oneof![2 => Just(0u8), 3 => Just(1u8), 1 => Just(2u8), 1 => Just(3u8), 7 => Just(4u8)])
        .prop_map(|(example, renumber_items, renumber_crates, seed, numbering)| Case { example, renumber_items, renumber_crates, seed, numbering, graph: None })
        .boxed()
}

fn main() {
    let (prop, mode) = vkit::parse_args();
    assert_eq!(prop, "C20", "chk-cli decides C20 only");
    let prop = "C20";
    vkit::MAX_SHRINK_ITERS.store(24, std::sync::atomic::Ordering::Relaxed);
    let stats = Stats::new();
    let orders: std::sync::Mutex<Vec<HashSet<Vec<String>>>> = std::sync::Mutex::new(vec![HashSet::new(); EXAMPLES.len()]);
    let identity = |example| Case { example, renumber_items: false, renumber_crates: false, seed: 0, numbering: 0, graph: None };
    let bases = || {
        BASES.get_or_init(|| {
            std::thread::scope(|s| {
                let hs: Vec<_> = (0..EXAMPLES.len()).map(|i| s.spawn(move || run(&identity(i), true))).collect();
                hs.into_iter()
                    .enumerate()
                    .map(|(i, h)| {
                        let out = h.join().unwrap().unwrap_or_else(|e| {
                            println!("why: the untransformed description of {} cannot be processed: {e}", EXAMPLES[i]);
                            println!("INCONCLUSIVE property=C20");
                            std::process::exit(2)
                        });
                        Base { registry: out.registry, load_order: out.load_order }
                    })
                    .collect()
            })
        })
    };
    let check = |c: &Case| -> Result<(), String> {
        if let Some(graph) = &c.graph {
            if graph.is_empty() || graph.iter().any(|f| f.is_empty()) || graph.iter().flatten().flatten().any(|j| *j >= graph.len()) {
                return Ok(());
            }
            let reachable = check_graph(graph)?;
            let depth3 = graph[0].iter().flatten().any(|j| graph[*j].iter().flatten().any(|k| !graph[0].contains(&Some(*k)) && *k != 0));
            stats.case(c, depth3, &["description:generated-crate-graph", if depth3 { "graph:a-crate-only-a-dependency-names" } else { "graph:flat" }, match reachable { 1 => "graph:1-crate", 2 | 3 => "graph:2-3-crates", _ => "graph:>=4-crates" }]);
            if depth3 && stats.wants_sample() {
                stats.sample(|| serde_json::json!({"case": c}));
            }
            return Ok(());
        }
        let base = &bases()[c.example];
        let out = run(c, false).map_err(|e| format!("[error] {}: {e}", EXAMPLES[c.example]))?;
        if out.registry != base.registry {
            return Err(format!("[renumbering-changes-registry] {}: {}", EXAMPLES[c.example], first_difference(&base.registry, &out.registry)));
        }
        closed(&out.registry).map_err(|e| format!("[not-closed] {}: {e}", EXAMPLES[c.example]))?;
        let reordered = out.load_order != base.load_order;
        let nt = reordered || out.moved >= 100 || (c.numbering % 5 == 4 && out.moved >= 4);
        orders.lock().unwrap()[c.example].insert(out.load_order.clone());
        stats.case(c, nt, &[&format!("description:{}", EXAMPLES[c.example]), if reordered { "load-order:changed" } else { "load-order:same" }, if c.renumber_items { "items:renumbered" } else { "items:as-is" }, if c.renumber_crates { "crates:renumbered" } else { "crates:as-is" }, ["numbering:sparse-random", "numbering:dense-permutation(colliding-across-crates)", "numbering:reversed", "numbering:shifted", "numbering:targeted-same-kind-collisions-across-crates"][(c.numbering % 5) as usize]]);
        if nt && stats.wants_sample() {
            stats.sample(|| serde_json::json!({"case": c, "ids_moved": out.moved, "load_order": out.load_order}));
        }
        Ok(())
    };
    // clauses (b)-(d) on the untransformed descriptions (they are functions of the registry, and (a) ties every transformed registry to these)
    let fixed_clauses = || -> Result<serde_json::Value, String> {
        let mut rows = vec![];
        for i in 0..EXAMPLES.len() {
            let out = run(&identity(i), true).map_err(|e| format!("[error] {}: {e}", EXAMPLES[i]))?;
            closed(&out.registry).map_err(|e| format!("[not-closed] {}: {e}", EXAMPLES[i]))?;
            let (full, partial) = variant_order(&out.registry, &out.crates).map_err(|e| format!("[variant-order] {}: {e}", EXAMPLES[i]))?;
            let same = agrees_with_traced(&out.registry).map_err(|e| format!("[traced-schema] {}: {e}", EXAMPLES[i]))?;
            rows.push(serde_json::json!({"description": EXAMPLES[i], "containers": out.registry.as_object().unwrap().len(), "enums_order_checked": full, "enums_contiguity_only": partial, "protocol_types_equal_to_traced": same}));
        }
        Ok(Value::Array(rows))
    };
    match mode {
        Mode::Replay(path) => {
            let res = vkit::read_replay(&path).and_then(|v| if v.is_null() { fixed_clauses().map(|_| ()) } else { serde_json::from_value::<Case>(v).map_err(|e| e.to_string()).and_then(|c| check(&c)) });
            vkit::finish_replay(prop, &path, res)
        }
        Mode::Run(tier) => {
            let started = std::time::Instant::now();
            vkit::watchdog("C20", tier.pick(600, 3600));
            let mut replayed = 0;
            for f in vkit::replay_files(prop) {
                replayed += 1;
                let res = vkit::read_replay(&f).and_then(|v| if v.is_null() { fixed_clauses().map(|_| ()) } else { serde_json::from_value::<Case>(v).map_err(|e| e.to_string()).and_then(|c| check(&c)) });
                if let Err(why) = res {
                    println!("why: {why}");
                    println!("VIOLATION property={prop} replay={}", f.display());
                    std::process::exit(1);
                }
            }
            match fixed_clauses() {
                Ok(rows) => stats.set_extra("closedness_variant_order_traced_schema", rows),
                Err(why) => {
                    let path = vkit::write_replay(prop, &Value::Null, &why);
                    println!("why: {why}");
                    println!("VIOLATION property={prop} replay={}", path.display());
                    std::process::exit(1);
                }
            }
            // generated crate graphs first (cheap: thousands of them), then the bundled descriptions
            let outcome = match vkit::run_prop("C20-graphs", vkit::workers_for(tier), tier.pick(400, 20_000), graph_strategy, check) {
                Outcome::Held => vkit::run_prop(prop, vkit::workers_for(tier), tier.pick(40, 400), strategy, check),
                o => o,
            };
            stats.set_extra("distinct_load_orders_per_description", serde_json::json!(EXAMPLES.iter().zip(orders.lock().unwrap().iter()).map(|(e, o)| (e.to_string(), o.len())).collect::<BTreeMap<_, _>>()));
            let outcome = match outcome {
                Outcome::Held if stats.distinct_nontrivial() < 2 => Outcome::Inconclusive("generator produced no non-trivial case".into()),
                o => o,
            };
            vkit::finish(
                Report {
                    prop,
                    tier,
                    rule: "the 7 bundled descriptions x transformations {consistent renumbering of every item id - injectively into random numbers, as a random permutation of 0..n per crate (ids of different crates then collide constantly), order-reversing, shifted, or as shipped but for 2-12 targeted swaps per crate that give an item the number an item of the same kind (struct, enum, impl, associated type, field, variant, trait, alias; half of the time also of the same name) carries in another crate of the run - (through a serde adapter that intercepts the newtype Id wherever it occurs, map keys included), renumbering of external crate ids, fresh hash order of all maps by re-deserialisation}, applied to the root crate and to every dependent crate the builder loads; non-trivial = the transformation changed the load order of dependent crates, moved >= 100 ids, or made >= 2 targeted swaps; distinct = distinct (description, transformation); plus generated graphs of 2-6 small synthetic crates (one operation type each, fields of type u32 or of another crate's type, the same item ids in every crate, crates that only a dependency names, cycles between crates): exactly the crates reachable from the root are loaded, each once, and the registry holds exactly their types as generated; clauses closed / variant order / traced schema are evaluated on each untransformed registry and carried to the transformed ones by the equality",
                    assumptions: vec![
                        "declaration order is read from the description's own variant list (rustdoc keeps source order); enums whose name is ambiguous across crates or that use serde rename are checked for contiguity only".into(),
                        "the traced schema is serde-reflection's registry of the shipped protocol types, compared as JSON with the CLI's containers of the same name".into(),
                    ],
                    started,
                    replayed,
                },
                &stats,
                outcome,
            )
        }
    }
}
