// serde adapter: re-serialize any value, mapping the u32 inside every newtype struct named "Id"
use serde::ser::{self, Serialize, Serializer};
use std::cell::RefCell; use std::collections::HashMap;
thread_local!{ pub static MAP: RefCell<HashMap<u32, u32>> = RefCell::new(HashMap::new()); pub static SEEN: RefCell<usize> = RefCell::new(0); }
pub struct W<'a, T: ?Sized>(pub &'a T);
impl<'a, T: Serialize + ?Sized> Serialize for W<'a, T> { fn serialize<S: Serializer>(&self, s: S) -> Result<S::Ok, S::Error> { self.0.serialize(R(s)) } }
pub struct R<S>(pub S);
pub struct C<X>(X);
macro_rules! fwd { ($($m:ident($t:ty)),*) => { $(fn $m(self, v: $t) -> Result<S::Ok, S::Error> { self.0.$m(v) })* } }
impl<S: Serializer> Serializer for R<S> {
    type Ok = S::Ok; type Error = S::Error;
    type SerializeSeq = C<S::SerializeSeq>; type SerializeTuple = C<S::SerializeTuple>; type SerializeTupleStruct = C<S::SerializeTupleStruct>; type SerializeTupleVariant = C<S::SerializeTupleVariant>;
    type SerializeMap = C<S::SerializeMap>; type SerializeStruct = C<S::SerializeStruct>; type SerializeStructVariant = C<S::SerializeStructVariant>;
    fwd!(serialize_bool(bool), serialize_i8(i8), serialize_i16(i16), serialize_i32(i32), serialize_i64(i64), serialize_i128(i128), serialize_u8(u8), serialize_u16(u16), serialize_u32(u32), serialize_u64(u64), serialize_u128(u128), serialize_f32(f32), serialize_f64(f64), serialize_char(char), serialize_str(&str), serialize_bytes(&[u8]));
    fn serialize_none(self) -> Result<S::Ok, S::Error> { self.0.serialize_none() }
    fn serialize_some<T: Serialize + ?Sized>(self, v: &T) -> Result<S::Ok, S::Error> { self.0.serialize_some(&W(v)) }
    fn serialize_unit(self) -> Result<S::Ok, S::Error> { self.0.serialize_unit() }
    fn serialize_unit_struct(self, n: &'static str) -> Result<S::Ok, S::Error> { self.0.serialize_unit_struct(n) }
    fn serialize_unit_variant(self, n: &'static str, i: u32, v: &'static str) -> Result<S::Ok, S::Error> { self.0.serialize_unit_variant(n, i, v) }
    fn serialize_newtype_struct<T: Serialize + ?Sized>(self, n: &'static str, v: &T) -> Result<S::Ok, S::Error> {
        if n == "Id" { let old = serde_json::to_value(v).map_err(|e| ser::Error::custom(e))?.as_u64().ok_or_else(|| ser::Error::custom("Id is not a number"))? as u32;
            SEEN.with(|s| *s.borrow_mut() += 1);
            let new = MAP.with(|m| m.borrow().get(&old).copied()).ok_or_else(|| ser::Error::custom(format!("unmapped id {old}")))?;
            self.0.serialize_newtype_struct(n, &new) } else { self.0.serialize_newtype_struct(n, &W(v)) } }
    fn serialize_newtype_variant<T: Serialize + ?Sized>(self, n: &'static str, i: u32, va: &'static str, v: &T) -> Result<S::Ok, S::Error> { self.0.serialize_newtype_variant(n, i, va, &W(v)) }
    fn serialize_seq(self, l: Option<usize>) -> Result<Self::SerializeSeq, S::Error> { Ok(C(self.0.serialize_seq(l)?)) }
    fn serialize_tuple(self, l: usize) -> Result<Self::SerializeTuple, S::Error> { Ok(C(self.0.serialize_tuple(l)?)) }
    fn serialize_tuple_struct(self, n: &'static str, l: usize) -> Result<Self::SerializeTupleStruct, S::Error> { Ok(C(self.0.serialize_tuple_struct(n, l)?)) }
    fn serialize_tuple_variant(self, n: &'static str, i: u32, v: &'static str, l: usize) -> Result<Self::SerializeTupleVariant, S::Error> { Ok(C(self.0.serialize_tuple_variant(n, i, v, l)?)) }
    fn serialize_map(self, l: Option<usize>) -> Result<Self::SerializeMap, S::Error> { Ok(C(self.0.serialize_map(l)?)) }
    fn serialize_struct(self, n: &'static str, l: usize) -> Result<Self::SerializeStruct, S::Error> { Ok(C(self.0.serialize_struct(n, l)?)) }
    fn serialize_struct_variant(self, n: &'static str, i: u32, v: &'static str, l: usize) -> Result<Self::SerializeStructVariant, S::Error> { Ok(C(self.0.serialize_struct_variant(n, i, v, l)?)) }
}
impl<X: ser::SerializeSeq> ser::SerializeSeq for C<X> { type Ok = X::Ok; type Error = X::Error; fn serialize_element<T: Serialize + ?Sized>(&mut self, v: &T) -> Result<(), X::Error> { self.0.serialize_element(&W(v)) } fn end(self) -> Result<X::Ok, X::Error> { self.0.end() } }
impl<X: ser::SerializeTuple> ser::SerializeTuple for C<X> { type Ok = X::Ok; type Error = X::Error; fn serialize_element<T: Serialize + ?Sized>(&mut self, v: &T) -> Result<(), X::Error> { self.0.serialize_element(&W(v)) } fn end(self) -> Result<X::Ok, X::Error> { self.0.end() } }
impl<X: ser::SerializeTupleStruct> ser::SerializeTupleStruct for C<X> { type Ok = X::Ok; type Error = X::Error; fn serialize_field<T: Serialize + ?Sized>(&mut self, v: &T) -> Result<(), X::Error> { self.0.serialize_field(&W(v)) } fn end(self) -> Result<X::Ok, X::Error> { self.0.end() } }
impl<X: ser::SerializeTupleVariant> ser::SerializeTupleVariant for C<X> { type Ok = X::Ok; type Error = X::Error; fn serialize_field<T: Serialize + ?Sized>(&mut self, v: &T) -> Result<(), X::Error> { self.0.serialize_field(&W(v)) } fn end(self) -> Result<X::Ok, X::Error> { self.0.end() } }
impl<X: ser::SerializeMap> ser::SerializeMap for C<X> { type Ok = X::Ok; type Error = X::Error; fn serialize_key<T: Serialize + ?Sized>(&mut self, k: &T) -> Result<(), X::Error> { self.0.serialize_key(&W(k)) } fn serialize_value<T: Serialize + ?Sized>(&mut self, v: &T) -> Result<(), X::Error> { self.0.serialize_value(&W(v)) } fn end(self) -> Result<X::Ok, X::Error> { self.0.end() } }
impl<X: ser::SerializeStruct> ser::SerializeStruct for C<X> { type Ok = X::Ok; type Error = X::Error; fn serialize_field<T: Serialize + ?Sized>(&mut self, k: &'static str, v: &T) -> Result<(), X::Error> { self.0.serialize_field(k, &W(v)) } fn end(self) -> Result<X::Ok, X::Error> { self.0.end() } }
impl<X: ser::SerializeStructVariant> ser::SerializeStructVariant for C<X> { type Ok = X::Ok; type Error = X::Error; fn serialize_field<T: Serialize + ?Sized>(&mut self, k: &'static str, v: &T) -> Result<(), X::Error> { self.0.serialize_field(k, &W(v)) } fn end(self) -> Result<X::Ok, X::Error> { self.0.end() } }
