//! Shared plumbing of the checks: tiers and seeds, the parallel proptest runner, case
//! classification, evidence and replay files, known findings, exit codes.
//!
//! Contract (see /verif/DESIGN.md §2): exit 0 = property held on everything explored,
//! exit 1 + `VIOLATION property=<id> replay=<path>` = violation not listed as known,
//! exit 2 = inconclusive (never a violation).

use proptest::strategy::{Strategy, ValueTree};
use proptest::test_runner::{Config, RngAlgorithm, TestCaseError, TestError, TestRng, TestRunner};
use serde::Serialize;
use std::collections::{BTreeMap, HashSet};
use std::path::{Path, PathBuf};
use std::sync::atomic::{AtomicBool, AtomicU64, Ordering};
use std::sync::Mutex;
use std::time::Instant;

pub mod panics;

#[derive(Clone, Copy, Debug, PartialEq, Eq)]
pub enum Tier {
    Quick,
    Thorough,
}

impl Tier {
    pub fn name(self) -> &'static str {
        match self {
            Tier::Quick => "quick",
            Tier::Thorough => "thorough",
        }
    }
    /// pick a per-tier number
    pub fn pick<T>(self, quick: T, thorough: T) -> T {
        match self {
            Tier::Quick => quick,
            Tier::Thorough => thorough,
        }
    }
}

pub enum Mode {
    Run(Tier),
    Replay(PathBuf),
}

/// `<bin> <property> quick|thorough|--replay <file>`
pub fn parse_args() -> (String, Mode) {
    let args: Vec<String> = std::env::args().collect();
    let usage = || -> ! {
        eprintln!("usage: {} <property id> quick|thorough|--replay <file>", args[0]);
        std::process::exit(2)
    };
    if args.len() < 3 {
        usage()
    }
    let prop = args[1].clone();
    let mode = match args[2].as_str() {
        "quick" => Mode::Run(Tier::Quick),
        "thorough" => Mode::Run(Tier::Thorough),
        "--replay" if args.len() >= 4 => Mode::Replay(PathBuf::from(&args[3])),
        _ => usage(),
    };
    // every check has a last-resort watchdog (a hang or a pathologically slow case is "inconclusive",
    // exit 2, never a verdict and never an endless run); individual checks set tighter ones
    match mode {
        Mode::Run(Tier::Quick) => watchdog_dyn(prop.clone(), 1500),
        Mode::Run(Tier::Thorough) => watchdog_dyn(prop.clone(), 4 * 3600),
        Mode::Replay(_) => watchdog_dyn(prop.clone(), 1800),
    }
    (prop, mode)
}

fn watchdog_dyn(prop: String, secs: u64) {
    std::thread::spawn(move || {
        std::thread::sleep(std::time::Duration::from_secs(secs));
        println!("INCONCLUSIVE property={prop} watchdog expired after {secs}s");
        std::process::exit(2);
    });
}

pub fn verif_root() -> PathBuf {
    std::env::var_os("VERIF_ROOT").map(PathBuf::from).unwrap_or_else(|| PathBuf::from("/verif"))
}

/// VERIF_SEED, default 1; 0 is remapped to 1 (so that "0 = random" conventions never apply)
pub fn base_seed() -> u64 {
    let s = std::env::var("VERIF_SEED").ok().and_then(|s| s.trim().parse::<u64>().ok()).unwrap_or(1);
    if s == 0 {
        1
    } else {
        s
    }
}

pub fn splitmix(mut x: u64) -> u64 {
    x = x.wrapping_add(0x9E37_79B9_7F4A_7C15);
    let mut z = x;
    z = (z ^ (z >> 30)).wrapping_mul(0xBF58_476D_1CE4_E5B9);
    z = (z ^ (z >> 27)).wrapping_mul(0x94D0_49BB_1331_11EB);
    z ^ (z >> 31)
}

pub fn derive_seed(base: u64, prop: &str, worker: u64) -> u64 {
    let mut h = splitmix(base);
    for b in prop.bytes() {
        h = splitmix(h ^ b as u64);
    }
    splitmix(h ^ worker.wrapping_mul(0xA24B_AED4_963E_E407))
}

pub fn fnv(bytes: &[u8]) -> u64 {
    let mut h = 0xcbf2_9ce4_8422_2325u64;
    for b in bytes {
        h ^= *b as u64;
        h = h.wrapping_mul(0x0000_0100_0000_01b3);
    }
    h
}

/// Counters shared by all workers of one check. Counting stops for a worker once it has seen a
/// failure (proptest re-runs the closure while shrinking).
#[derive(Default)]
pub struct Stats {
    pub evaluations: AtomicU64,
    nontrivial: Mutex<HashSet<u64>>,
    classes: Mutex<BTreeMap<String, u64>>,
    samples: Mutex<Vec<serde_json::Value>>,
    excluded: Mutex<BTreeMap<String, u64>>,
    extra: Mutex<BTreeMap<String, serde_json::Value>>,
    max_samples: usize,
}

thread_local! { static FROZEN: std::cell::Cell<bool> = const { std::cell::Cell::new(false) }; }

impl Stats {
    pub fn new() -> Self {
        Stats { max_samples: 6, ..Default::default() }
    }
    fn live(&self) -> bool {
        !FROZEN.with(|f| f.get())
    }
    /// record one evaluated case; `key` identifies the case for distinctness
    pub fn case(&self, key: &impl std::hash::Hash, nontrivial: bool, labels: &[&str]) {
        if !self.live() {
            return;
        }
        self.evaluations.fetch_add(1, Ordering::Relaxed);
        if nontrivial {
            use std::hash::Hasher;
            let mut h = std::collections::hash_map::DefaultHasher::new();
            key.hash(&mut h);
            self.nontrivial.lock().unwrap().insert(h.finish());
        }
        if !labels.is_empty() {
            let mut c = self.classes.lock().unwrap();
            for l in labels {
                *c.entry((*l).to_string()).or_insert(0) += 1;
            }
        }
    }
    pub fn label(&self, l: &str) {
        if self.live() {
            *self.classes.lock().unwrap().entry(l.to_string()).or_insert(0) += 1;
        }
    }
    pub fn excluded_known(&self, sig: &str) {
        if self.live() {
            *self.excluded.lock().unwrap().entry(sig.to_string()).or_insert(0) += 1;
        }
    }
    /// keep a few rendered cases for the evidence file (non-trivial ones preferred by the caller)
    pub fn sample(&self, v: impl FnOnce() -> serde_json::Value) {
        if !self.live() {
            return;
        }
        let mut s = self.samples.lock().unwrap();
        if s.len() < self.max_samples {
            let v = v();
            // keep the evidence file readable: an oversized case is sampled as the head of its JSON text
            let text = serde_json::to_string(&v).unwrap_or_default();
            if text.len() <= 2000 {
                s.push(v);
            } else {
                let head: String = text.chars().take(1500).collect();
                s.push(serde_json::json!({ "truncated": true, "bytes": text.len(), "head": head }));
            }
        }
    }
    pub fn wants_sample(&self) -> bool {
        self.live() && self.samples.lock().unwrap().len() < self.max_samples
    }
    pub fn set_extra(&self, k: &str, v: serde_json::Value) {
        self.extra.lock().unwrap().insert(k.to_string(), v);
    }
    /// labels starting with `prefix` and their counts
    pub fn labels_with_prefix(&self, prefix: &str) -> Vec<(String, u64)> {
        self.classes.lock().unwrap().iter().filter(|(k, _)| k.starts_with(prefix)).map(|(k, v)| (k.clone(), *v)).collect()
    }
    pub fn distinct_nontrivial(&self) -> usize {
        self.nontrivial.lock().unwrap().len()
    }
}

pub struct Violation {
    pub why: String,
    /// the shrunk case, serializable, becomes the replay file
    pub case: serde_json::Value,
}

pub enum Outcome {
    Held,
    Violated(Violation),
    Inconclusive(String),
}

pub fn workers_for(tier: Tier) -> usize {
    let n = std::thread::available_parallelism().map(|n| n.get()).unwrap_or(4);
    match tier {
        Tier::Quick => n.min(16),
        Tier::Thorough => n.min(16),
    }
}

/// Run `cases_per_worker` generated cases on each of `workers` threads, each with its own
/// deterministic proptest runner. The first failure of the lowest-numbered failing worker is
/// shrunk by the library and returned.
/// upper bound on shrink steps after a failure (lower it for expensive properties)
pub static MAX_SHRINK_ITERS: std::sync::atomic::AtomicU32 = std::sync::atomic::AtomicU32::new(50_000);

pub fn run_prop<S, F>(prop: &str, workers: usize, cases_per_worker: u32, strategy: impl Fn() -> S + Sync, check: F) -> Outcome
where
    S: Strategy,
    S::Value: std::fmt::Debug + Serialize + Clone,
    F: Fn(&S::Value) -> Result<(), String> + Sync,
{
    let base = base_seed();
    let stop = AtomicBool::new(false);
    let results: Vec<Option<Violation>> = std::thread::scope(|scope| {
        let handles: Vec<_> = (0..workers)
            .map(|w| {
                let strategy = &strategy;
                let check = &check;
                let stop = &stop;
                scope.spawn(move || {
                    FROZEN.with(|f| f.set(false));
                    let mut seed_bytes = [0u8; 32];
                    seed_bytes[..8].copy_from_slice(&derive_seed(base, prop, w as u64).to_le_bytes());
                    let config = Config {
                        cases: cases_per_worker,
                        failure_persistence: None,
                        max_shrink_iters: MAX_SHRINK_ITERS.load(Ordering::Relaxed),
                        max_global_rejects: 1_000_000,
                        verbose: 0,
                        ..Config::default()
                    };
                    let mut runner = TestRunner::new_with_rng(config, TestRng::from_seed(RngAlgorithm::ChaCha, &seed_bytes));
                    let res = runner.run(&strategy(), |v| {
                        if stop.load(Ordering::Relaxed) && !FROZEN.with(|f| f.get()) {
                            return Ok(()); // another worker already failed; finish quickly
                        }
                        match check(&v) {
                            Ok(()) => Ok(()),
                            Err(why) => {
                                FROZEN.with(|f| f.set(true));
                                stop.store(true, Ordering::Relaxed);
                                Err(TestCaseError::fail(why))
                            }
                        }
                    });
                    match res {
                        Ok(()) => None,
                        Err(TestError::Fail(why, v)) => Some(Violation { why: why.to_string(), case: serde_json::to_value(&v).unwrap_or(serde_json::Value::Null) }),
                        Err(TestError::Abort(why)) => Some(Violation { why: format!("proptest aborted: {why}"), case: serde_json::Value::Null }),
                    }
                })
            })
            .collect();
        handles.into_iter().map(|h| h.join().unwrap_or_else(|_| Some(Violation { why: "worker panicked outside the property".into(), case: serde_json::Value::Null }))).collect()
    });
    match results.into_iter().flatten().next() {
        Some(v) if v.case.is_null() && v.why.starts_with("proptest aborted") => Outcome::Inconclusive(v.why),
        Some(v) => Outcome::Violated(v),
        None => Outcome::Held,
    }
}

/// generate a single value from a strategy with a fixed seed (used for samples and reproducers)
pub fn sample_value<S: Strategy>(s: &S, seed: u64) -> S::Value {
    let mut seed_bytes = [0u8; 32];
    seed_bytes[..8].copy_from_slice(&seed.to_le_bytes());
    let mut runner = TestRunner::new_with_rng(Config::default(), TestRng::from_seed(RngAlgorithm::ChaCha, &seed_bytes));
    s.new_tree(&mut runner).expect("strategy").current()
}

// ---------------------------------------------------------------- known findings

#[derive(Debug, Clone)]
pub struct Known {
    pub property: String,
    pub sig: String,
    pub what: String,
}

/// `known: property=C07 sig=<signature> <what fails>` lines of /verif/known_findings.txt
pub fn known_findings(prop: &str) -> Vec<Known> {
    let path = verif_root().join("known_findings.txt");
    let Ok(text) = std::fs::read_to_string(path) else { return vec![] };
    text.lines()
        .filter_map(|l| {
            let l = l.trim();
            let rest = l.strip_prefix("known:")?.trim();
            let mut property = None;
            let mut sig = None;
            let mut what = vec![];
            for tok in rest.split_whitespace() {
                if let Some(p) = tok.strip_prefix("property=") {
                    property = Some(p.to_string());
                } else if let Some(s) = tok.strip_prefix("sig=") {
                    sig = Some(s.to_string());
                } else {
                    what.push(tok);
                }
            }
            Some(Known { property: property?, sig: sig?, what: what.join(" ") })
        })
        .filter(|k| k.property == prop)
        .collect()
}

pub fn is_known(known: &[Known], sig: &str) -> bool {
    known.iter().any(|k| k.sig == sig)
}

pub fn print_known_finding(k: &Known) {
    println!("KNOWN-FINDING: property={} sig={} {}", k.property, k.sig, k.what);
}

// ---------------------------------------------------------------- evidence, replay, exit

pub struct Report<'a> {
    pub prop: &'a str,
    pub tier: Tier,
    pub rule: &'a str,
    pub assumptions: Vec<String>,
    pub started: Instant,
    pub replayed: usize,
}

pub fn replay_files(prop: &str) -> Vec<PathBuf> {
    // VERIF_NO_REPLAYS=1: the generated search alone (used to measure what the generators find
    // without the regression inputs)
    if std::env::var_os("VERIF_NO_REPLAYS").is_some() {
        return vec![];
    }
    let dir = verif_root().join("replays").join(prop);
    let mut v: Vec<PathBuf> = std::fs::read_dir(dir).map(|rd| rd.filter_map(|e| e.ok().map(|e| e.path())).filter(|p| p.extension().map_or(false, |x| x == "json")).collect()).unwrap_or_default();
    v.sort();
    v
}

pub fn write_replay(prop: &str, case: &serde_json::Value, why: &str) -> PathBuf {
    let dir = verif_root().join("out").join("violations");
    let _ = std::fs::create_dir_all(&dir);
    let body = serde_json::json!({ "property": prop, "why": why, "case": case });
    let text = serde_json::to_string_pretty(&body).unwrap();
    let path = dir.join(format!("{}-{:016x}.json", prop, fnv(text.as_bytes())));
    let _ = std::fs::write(&path, text);
    path
}

pub fn read_replay(path: &Path) -> Result<serde_json::Value, String> {
    let text = std::fs::read_to_string(path).map_err(|e| format!("cannot read {}: {e}", path.display()))?;
    let v: serde_json::Value = serde_json::from_str(&text).map_err(|e| format!("cannot parse {}: {e}", path.display()))?;
    Ok(v.get("case").cloned().unwrap_or(v))
}

fn write_evidence(r: &Report, stats: &Stats, violations: u64) {
    let dir = verif_root().join("evidence");
    let _ = std::fs::create_dir_all(&dir);
    let mut coverage = serde_json::Map::new();
    coverage.insert("evaluations".into(), stats.evaluations.load(Ordering::Relaxed).into());
    coverage.insert("distinct_nontrivial".into(), (stats.distinct_nontrivial() as u64).into());
    coverage.insert("rule".into(), r.rule.into());
    coverage.insert("samples".into(), serde_json::Value::Array(stats.samples.lock().unwrap().clone()));
    coverage.insert("classes".into(), serde_json::to_value(&*stats.classes.lock().unwrap()).unwrap());
    coverage.insert("excluded_known".into(), serde_json::to_value(&*stats.excluded.lock().unwrap()).unwrap());
    coverage.insert("replayed".into(), (r.replayed as u64).into());
    for (k, v) in stats.extra.lock().unwrap().iter() {
        coverage.insert(k.clone(), v.clone());
    }
    let ev = serde_json::json!({
        "property_id": r.prop,
        "tier": r.tier.name(),
        "seed": base_seed(),
        "level": "exploration",
        "coverage": coverage,
        "assumptions": r.assumptions,
        "wall_s": r.started.elapsed().as_secs_f64(),
        "violations": violations,
    });
    let _ = std::fs::write(dir.join(format!("{}.json", r.prop)), serde_json::to_string_pretty(&ev).unwrap());
}

/// write the evidence file, print the verdict line, and exit with the contract's code
pub fn finish(r: Report, stats: &Stats, outcome: Outcome) -> ! {
    match outcome {
        Outcome::Held => {
            write_evidence(&r, stats, 0);
            println!(
                "OK property={} tier={} evaluations={} distinct_nontrivial={} wall={:.1}s",
                r.prop,
                r.tier.name(),
                stats.evaluations.load(Ordering::Relaxed),
                stats.distinct_nontrivial(),
                r.started.elapsed().as_secs_f64()
            );
            std::process::exit(0)
        }
        Outcome::Violated(v) => {
            write_evidence(&r, stats, 1);
            let path = write_replay(r.prop, &v.case, &v.why);
            println!("why: {}", v.why.chars().take(2000).collect::<String>());
            println!("VIOLATION property={} replay={}", r.prop, path.display());
            std::process::exit(1)
        }
        Outcome::Inconclusive(why) => {
            write_evidence(&r, stats, 0);
            println!("INCONCLUSIVE property={} {}", r.prop, why);
            std::process::exit(2)
        }
    }
}

/// verdict of a `--replay` run
pub fn finish_replay(prop: &str, path: &Path, result: Result<(), String>) -> ! {
    match result {
        Ok(()) => {
            println!("REPLAY-OK property={} replay={}", prop, path.display());
            std::process::exit(0)
        }
        Err(why) => {
            println!("why: {}", why.chars().take(2000).collect::<String>());
            println!("VIOLATION property={} replay={}", prop, path.display());
            std::process::exit(1)
        }
    }
}

/// a watchdog that turns a blown budget into "inconclusive" (exit 2), never into a violation
pub fn watchdog(prop: &'static str, secs: u64) {
    std::thread::spawn(move || {
        std::thread::sleep(std::time::Duration::from_secs(secs));
        println!("INCONCLUSIVE property={prop} watchdog expired after {secs}s");
        std::process::exit(2);
    });
}
