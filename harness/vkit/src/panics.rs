//! Quiet, message-capturing `catch_unwind` for oracles that accept "explicit rejection by panic".
use std::panic::{catch_unwind, AssertUnwindSafe};
use std::sync::Once;

static HOOK: Once = Once::new();
thread_local! { static QUIET: std::cell::Cell<bool> = const { std::cell::Cell::new(false) }; }

fn install() {
    HOOK.call_once(|| {
        let prev = std::panic::take_hook();
        std::panic::set_hook(Box::new(move |info| {
            if !QUIET.with(|q| q.get()) {
                prev(info)
            }
        }));
    });
}

/// run `f`; a panic becomes `Err(message)` and prints nothing
pub fn catch<T>(f: impl FnOnce() -> T) -> Result<T, String> {
    install();
    let was = QUIET.with(|q| q.replace(true));
    let r = catch_unwind(AssertUnwindSafe(f));
    QUIET.with(|q| q.set(was));
    r.map_err(|p| p.downcast_ref::<String>().cloned().or_else(|| p.downcast_ref::<&str>().map(|s| s.to_string())).unwrap_or_else(|| "<non-string panic>".into()))
}
