//! C15, coverage-guided driver: the fuzzer's bytes are decoded into a shell answer to one HTTP
//! request (status, up to three headers, body) plus the API and the body expectation of the app;
//! the oracle is the one of the proptest campaign (`chk_data::c15::judge`: exactly one outcome,
//! classified by status, body decoded as a conforming decoder would or an error value, no panic).
//! Failures whose signature is a known finding are tolerated in the target (the campaign prints
//! and counts them), so that the fuzzer does not rediscover one crash for ever.
#![no_main]
use arbitrary::Unstructured;
use chk_data::c15::{judge, Api, Case, Expect, Reply, KNOWN_SIGS, KNOWN_STATUS};
use libfuzzer_sys::fuzz_target;

const NAMES: &[&str] = &["content-type", "Content-Type", "content-length", "transfer-encoding", "content-encoding", "set-cookie", "x-a", "etag", "location"];
const TYPES: &[&str] = &[
    "application/json",
    "text/plain; charset=utf-8",
    "text/plain; charset=iso-8859-1",
    "text/html; charset=UTF-16LE",
    "text/plain; charset=euc-kr",
    "text/plain;charset=\"utf-8\"",
    "text/plain; charset=bogus",
    "application/octet-stream",
    "",
];

fn decode(data: &[u8]) -> arbitrary::Result<Case> {
    let mut u = Unstructured::new(data);
    let api = *u.choose(&[Api::Command, Api::Capability, Api::CapabilityAsync])?;
    let expect = *u.choose(&[Expect::Bytes, Expect::Str, Expect::Json, Expect::Typed])?;
    let raw: u16 = u.arbitrary()?;
    // mostly statuses of http-types' table (the others are a known finding), success classes preferred
    let status = match raw % 8 {
        0 => raw / 8,
        1 | 2 => KNOWN_STATUS[(raw / 8) as usize % KNOWN_STATUS.len()],
        _ => [200u16, 201, 204, 206, 301, 304, 404, 500][(raw / 8) as usize % 8],
    };
    let mut headers = vec![];
    for _ in 0..u.int_in_range(0..=3)? {
        let name = if u.ratio(5, 6)? {
            u.choose(NAMES)?.to_string()
        } else {
            let n = u.int_in_range(1..=6)?.min(u.len());
            String::from_utf8_lossy(u.bytes(n)?).into_owned()
        };
        let value = if name.eq_ignore_ascii_case("content-type") && u.ratio(3, 4)? {
            u.choose(TYPES)?.to_string()
        } else {
            let n = u.int_in_range(0..=12)?.min(u.len());
            String::from_utf8_lossy(u.bytes(n)?).into_owned()
        };
        headers.push((name, value));
    }
    let body = u.take_rest().to_vec();
    Ok(Case { api, expect, reply: Reply::Response { status, headers, body }, earlier: vec![] })
}

fuzz_target!(|data: &[u8]| {
    let Ok(case) = decode(data) else { return };
    if let Err((sig, why)) = judge(&case) {
        if KNOWN_SIGS.contains(&sig.as_str()) {
            return;
        }
        let dir = vkit::verif_root().join("out").join("violations");
        let _ = std::fs::create_dir_all(&dir);
        let body = serde_json::json!({ "property": "C15", "why": format!("[{sig}] {why}"), "case": case });
        let _ = std::fs::write(dir.join("C15-fuzz.json"), serde_json::to_string_pretty(&body).unwrap());
        panic!("C15 violated: [{sig}] {why}");
    }
});
