//! Engine A, coverage-guided driver (thorough tier of C01-C07, C09, C13): the fuzzer's bytes are the
//! random stream of the campaign's own proptest generator (`RngAlgorithm::PassThrough`), so every
//! input denotes a (host, universe) case of exactly the campaign's domain; the oracle is the
//! campaign's (`chk_sim::Judge::check`: trace invariants + trace-guided refinement, clause ownership
//! and known-finding tolerances of the property named by VERIF_FUZZ_PROP). What libFuzzer adds to
//! the random campaign is the feedback: inputs that reach new code of crux_core's executors,
//! bridge and registry are kept and mutated further.
#![no_main]
use chk_sim::Judge;
use libfuzzer_sys::fuzz_target;
use proptest::strategy::{Strategy, ValueTree};
use proptest::test_runner::{Config, RngAlgorithm, TestRng, TestRunner};

/// serialized size above which a generated case is skipped (typical cases: 1-5 kB)
const MAX_CASE_JSON: usize = 12_000;

struct Ctx {
    judge: Judge,
    strategy: proptest::strategy::BoxedStrategy<chk_sim::Case>,
}

fn ctx() -> &'static Ctx {
    // (a boxed strategy is not Sync; the fuzzer calls the target from one thread)
    thread_local! { static C: &'static Ctx = Box::leak(Box::new(make())); }
    C.with(|c| *c)
}

fn make() -> Ctx {
    {
        let prop = std::env::var("VERIF_FUZZ_PROP").unwrap_or_else(|_| "C01".into());
        let judge = Judge::new(&prop).expect("VERIF_FUZZ_PROP names an Engine A property");
        // the campaign's generator without its expensive corner (see `Judge::strategy`, `small`)
        let strategy = judge.strategy(false, false, true);
        Ctx { judge, strategy }
    }
}

fuzz_target!(|data: &[u8]| {
    if data.len() < 16 {
        return;
    }
    let c = ctx();
    // (the stock pass-through generator is unusable here - forks halve what is left of the input and
    // zeros after its end make rand's range sampling spin - see vendor/proptest, VERIF PATCH)
    let mut runner = TestRunner::new_with_rng(Config { failure_persistence: None, ..Config::default() }, TestRng::from_seed(RngAlgorithm::PassThrough, data));
    let Ok(mut tree) = c.strategy.new_tree(&mut runner) else { return };
    let case = tree.current();
    // mutated bytes can ask for the largest size at every level at once (the campaign's generator
    // does so with negligible probability): such a case is minutes of work and says nothing new
    if serde_json::to_vec(&case).map_or(true, |v| v.len() > MAX_CASE_JSON) {
        return;
    }
    if std::env::var_os("VERIF_FUZZ_DUMP").is_some() {
        // (debugging aid: which case does this input denote?)
        println!("{}", serde_json::to_string(&case).unwrap());
        return;
    }
    if let Err(why) = c.judge.check(&case) {
        let prop = c.judge.sp.prop;
        // shrink with the library's own value tree (bounded), keeping the smallest case that still fails
        let (mut case, mut why) = (case, why);
        let mut steps = 0;
        'shrink: while steps < 3000 && tree.simplify() {
            loop {
                steps += 1;
                let smaller = tree.current();
                match c.judge.check(&smaller) {
                    Err(w) => {
                        case = smaller;
                        why = w;
                        continue 'shrink;
                    }
                    Ok(()) if steps < 3000 && tree.complicate() => {}
                    Ok(()) => break 'shrink,
                }
            }
        }
        let dir = vkit::verif_root().join("out").join("violations");
        let _ = std::fs::create_dir_all(&dir);
        let body = serde_json::json!({ "property": prop, "why": why, "case": case });
        let _ = std::fs::write(dir.join(format!("{prop}-fuzz.json")), serde_json::to_string_pretty(&body).unwrap());
        panic!("{prop} violated: {why}");
    }
});
