//! Data properties, coverage-guided driver (thorough tier of C14, C16, C17, C18): as in `sim_case`, the
//! fuzzer's bytes are the random stream of the campaign's own proptest strategy (pass-through
//! generator of the vendored proptest, see DESIGN 16.1), and the oracle inside the target is the
//! campaign's `judge` / `run` (an independent description of the expected wire request, the
//! recursive middleware / redirect reference, pass-through equality, the per-timer automaton).
//! The property is named by VERIF_FUZZ_PROP. A failure is shrunk with the library's value tree and
//! written in the campaign's replay format.
#![no_main]
use chk_data::{c14, c16, c17, c18};
use libfuzzer_sys::fuzz_target;
use proptest::strategy::{BoxedStrategy, Strategy, ValueTree};
use proptest::test_runner::{Config, RngAlgorithm, TestRng, TestRunner};

fn prop() -> &'static str {
    static P: std::sync::OnceLock<String> = std::sync::OnceLock::new();
    P.get_or_init(|| std::env::var("VERIF_FUZZ_PROP").unwrap_or_else(|_| "C16".into()))
}

fn drive<C: serde::Serialize + std::fmt::Debug>(data: &[u8], strategy: &BoxedStrategy<C>, judge: impl Fn(&C) -> Result<(), (String, String)>) {
    let mut runner = TestRunner::new_with_rng(Config { failure_persistence: None, ..Config::default() }, TestRng::from_seed(RngAlgorithm::PassThrough, data));
    let Ok(mut tree) = strategy.new_tree(&mut runner) else { return };
    let case = tree.current();
    let Err((sig, why)) = judge(&case) else { return };
    // a listed finding is the campaign's to print and count; the fuzzer must not rediscover it for ever
    if vkit::is_known(&vkit::known_findings(prop()), &sig) {
        return;
    }
    let (mut case, mut why) = (case, format!("[{sig}] {why}"));
    let mut steps = 0;
    'shrink: while steps < 3000 && tree.simplify() {
        loop {
            steps += 1;
            let smaller = tree.current();
            match judge(&smaller) {
                Err((s, w)) if s == sig => {
                    case = smaller;
                    why = format!("[{s}] {w}");
                    continue 'shrink;
                }
                _ if steps < 3000 && tree.complicate() => {}
                _ => break 'shrink,
            }
        }
    }
    let dir = vkit::verif_root().join("out").join("violations");
    let _ = std::fs::create_dir_all(&dir);
    let body = serde_json::json!({ "property": prop(), "why": why, "case": case });
    let _ = std::fs::write(dir.join(format!("{}-fuzz.json", prop())), serde_json::to_string_pretty(&body).unwrap());
    panic!("{} violated: {why}", prop());
}

thread_local! {
    static S14: BoxedStrategy<c14::Case> = c14::strategy();
    static S16: BoxedStrategy<c16::Case> = c16::strategy();
    static S17: BoxedStrategy<c17::Case> = c17::strategy();
    static S18: BoxedStrategy<c18::Case> = c18::strategy();
}

fuzz_target!(|data: &[u8]| {
    if data.len() < 8 {
        return;
    }
    match prop() {
        "C14" => S14.with(|s| drive(data, s, c14::judge)),
        "C16" => S16.with(|s| drive(data, s, c16::judge)),
        "C17" => S17.with(|s| drive(data, s, |c| c17::run(c).map(|_| ()).map_err(|w| ("mismatch".to_string(), w)))),
        "C18" => S18.with(|s| drive(data, s, |c| c18::run(c).map(|_| ()).map_err(|w| ("mismatch".to_string(), w)))),
        other => panic!("data_case does not serve {other}"),
    }
});
