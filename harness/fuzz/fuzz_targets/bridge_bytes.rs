//! C12, coverage-guided driver: the fuzzer's bytes are offered to the bincode / JSON bridge as an
//! event, as the response to an outstanding request or under an id that names none, at a point of a small fixed history; the
//! oracle is the one of the proptest campaign (`sim::fault::run_fault_case`: no panic, bounded
//! allocation is checked by the campaign binary only, typed twin agrees afterwards).
#![no_main]
use libfuzzer_sys::fuzz_target;
use sim::dsl::Universe;
use sim::fault::{run_fault_case, Fault, FaultCase, Mutation, Target};

fn universes() -> &'static Vec<Universe> {
    static U: std::sync::OnceLock<Vec<Universe>> = std::sync::OnceLock::new();
    U.get_or_init(|| {
        let u = |programs: &str, acts: &str| -> Universe { serde_json::from_str(&format!("{{\"programs\":{programs},\"follow\":null,\"acts\":{acts}}}")).expect("fixed universe") };
        vec![
            // two one-shots and a stream outstanding; the history goes on resolving afterwards
            u(r#"[{"All":[{"Req":0},{"Sub":0},{"Async":[0,["Await",{"Emit":1},"Await"]]}]}]"#, r#"[{"Resolve":0},{"Resolve":40000},{"Resolve":20000},{"Resolve":0}]"#),
            // a stream feeding requests, a chain, a task with a loop
            u(r#"[{"And":[{"ChainSR":0},{"Async":[0,[{"StreamLoop":[0,["Await",{"Emit":2}]]}]]}]}]"#, r#"[{"Resolve":0},{"Resolve":65535},{"Resolve":0},{"Resolve":30000},{"Start":0},{"Resolve":0}]"#),
            u(r#"[{"Then":[{"ChainRR":0},{"MapEffect":[0,{"Sub":0}]}]},{"Notify":0}]"#, r#"[{"Resolve":0},{"Start":1},{"Resolve":0},{"Resolve":0},{"Resolve":0}]"#),
        ]
    })
}

fuzz_target!(|data: &[u8]| {
    if data.len() < 3 {
        return;
    }
    let (head, input) = data.split_at(3);
    let universe = universes()[head[0] as usize % universes().len()].clone();
    let case = FaultCase {
        universe,
        json: head[0] & 0x80 != 0,
        faults: vec![Fault { at: head[1] % 7, target: match head[2] & 3 { 0 => Target::Event, 3 => Target::Stray((head[2] as u16) << 8), _ => Target::Response((head[2] as u16) << 8) }, mutation: Mutation::Random(input.to_vec()) }],
    };
    if let Err(why) = run_fault_case(&case) {
        // leave the case where the check script finds it, then crash so that the fuzzer keeps the input
        let dir = vkit::verif_root().join("out").join("violations");
        let _ = std::fs::create_dir_all(&dir);
        let body = serde_json::json!({ "property": "C12", "why": why, "case": case });
        let _ = std::fs::write(dir.join("C12-fuzz.json"), serde_json::to_string_pretty(&body).unwrap());
        panic!("C12 violated: {why}");
    }
});
