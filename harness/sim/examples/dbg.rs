use sim::dsl::*;
fn bad(c: &Cmd) -> bool { match c { Cmd::And(a, b) => matches!(**a, Cmd::Abortable(..)) || bad(a) || bad(b), Cmd::Then(a, b) => bad(a) || bad(b), Cmd::All(cs) | Cmd::Collect(cs) => cs.iter().any(bad), Cmd::MapEvent(_, c) | Cmd::MapEffect(_, c) | Cmd::Abortable(_, c) => bad(c), Cmd::WithSpawn(_, c, _) => matches!(**c, Cmd::Abortable(..)) || bad(c), _ => false } }
fn main() {
    let s = sim::gen::universe(sim::gen::GenCfg::standard());
    let mut n = 0;
    for seed in 0..20000u64 { let u = vkit::sample_value(&s, seed); if u.programs.iter().any(bad) { n += 1; if n < 3 { println!("{:?}", u.programs); } } }
    println!("{n} unsanitized of 20000");
}
