//! writes seed inputs for the `bridge_bytes` fuzz target: a 3-byte head (universe / codec, position,
//! target) followed by a valid encoding of an event or of a response, for both codecs
use bincode::Options;
use sim::dsl::{Event, Out};
fn main() {
    let dir = std::env::args().nth(1).expect("usage: c12_seeds <dir>");
    std::fs::create_dir_all(&dir).unwrap();
    let opts = bincode::DefaultOptions::new().with_fixint_encoding().allow_trailing_bytes();
    let events = [Event::Noop, Event::Text("héllo".into()), Event::Tag { tag: 7, from: vec![1, 2, 3], val: 9 }, Event::Start { uni: 1, prog: 0 }, Event::Mapped(3, Box::new(Event::Noop))];
    let outs = [Out::new(1), Out::new(2), Out::new(3), Out::new(4)];
    let mut n = 0;
    let mut put = |head: [u8; 3], body: Vec<u8>| {
        let mut v = head.to_vec();
        v.extend(body);
        std::fs::write(format!("{dir}/seed-{n:03}"), v).unwrap();
        n += 1;
    };
    for u in 0..3u8 {
        for at in [0u8, 2, 4] {
            for e in &events {
                put([u, at, 0], opts.serialize(e).unwrap());
                put([u | 0x80, at, 0], serde_json::to_vec(e).unwrap());
            }
            for (k, o) in outs.iter().enumerate() {
                put([u, at, 1 + 2 * (k as u8 * 40)], opts.serialize(o).unwrap());
                put([u | 0x80, at, 1 + 2 * (k as u8 * 40)], serde_json::to_vec(o).unwrap());
            }
        }
    }
    println!("{n} seeds");
}
