//! The legacy capability-API runtime: tasks spawned on the `QueuingExecutor` through
//! `CapabilityContext`, events through `update_app`. No join handles exist in this API.

use crate::app::{Sim, UniCtx};
use crate::dsl::*;
use crate::rt::*;
use crate::trace::Path;
use crux_core::capability::CapabilityContext;
use futures::future::BoxFuture;
use futures::stream::BoxStream;
use futures::{FutureExt, StreamExt};
use std::sync::Arc;

pub struct Legacy {
    ctx: CapabilityContext<Op, Event>,
    uni: Arc<UniCtx>,
}

impl Clone for Legacy {
    fn clone(&self) -> Self {
        Legacy { ctx: self.ctx.clone(), uni: self.uni.clone() }
    }
}

impl Rt for Legacy {
    fn notify(&self, op: Op) -> BoxFuture<'static, ()> {
        let c = self.ctx.clone();
        async move { c.notify_shell(op).await }.boxed()
    }
    fn request(&self, op: Op) -> BoxFuture<'static, Out> {
        self.ctx.request_from_shell(op).boxed()
    }
    fn stream(&self, op: Op) -> BoxStream<'static, Out> {
        self.ctx.stream_from_shell(op).boxed()
    }
    fn chain_rr(&self, a: Op, b: Op) -> BoxFuture<'static, Out> {
        let c = self.ctx.clone();
        async move {
            let _ = c.request_from_shell(a).await;
            c.request_from_shell(b).await
        }
        .boxed()
    }
    fn emit(&self, ev: Event) {
        self.ctx.update_app(ev)
    }
    fn spawn(&self, _path: Path, f: Box<dyn FnOnce(Self) -> BoxFuture<'static, ()> + Send>) -> JoinH {
        // compose-style: a task spawning another task onto the executor
        self.ctx.spawn(f(self.clone()));
        JoinH::none()
    }
    fn yield_now(&self) -> BoxFuture<'static, ()> {
        self_waking_yield(false)
    }
    fn yield_by_value(&self) -> BoxFuture<'static, ()> {
        self_waking_yield(true)
    }
    fn chan_send(&self, c: usize, v: u32) {
        self.uni.chans[c].send(v)
    }
    fn chan_recv(&self, c: usize) -> BoxFuture<'static, u32> {
        self.uni.chans[c].recv()
    }
    fn export(&self, _key: Path, _h: JoinH) {}
}

/// the legacy image of a program: every `Async` node becomes a task spawned through the capability
pub fn run_program(sim: &Sim<Event>, uni: &Arc<UniCtx>, c: &Cmd) {
    match c {
        Cmd::Async(id, task) => {
            let rt = Legacy { ctx: sim.ctx.clone(), uni: uni.clone() };
            sim.ctx.spawn(task_root(rt, uni.sink.clone(), vec![*id], task.clone()));
        }
        Cmd::All(cs) | Cmd::Collect(cs) => cs.iter().for_each(|c| run_program(sim, uni, c)),
        Cmd::And(a, b) => {
            run_program(sim, uni, a);
            run_program(sim, uni, b);
        }
        // `Capability::map_event`: the tasks below run on a context that maps every event they send
        Cmd::MapEvent(id, c) => {
            use crux_core::Capability;
            let id = *id;
            let mapped: Sim<Event> = sim.map_event(move |e: Event| Event::Mapped(id, Box::new(e)));
            run_program(&mapped, uni, c);
        }
        _ => {}
    }
}

/// can this program be expressed in the legacy API?
pub fn expressible(c: &Cmd) -> bool {
    fn stmts_ok(t: &[Stmt]) -> bool {
        t.iter().all(|s| match s {
            Stmt::Join(_) | Stmt::AbortT(_) | Stmt::Export(_) | Stmt::JoinBig(_) | Stmt::AbortCmd(_) => false,
            Stmt::StreamLoop(_, b) | Stmt::Spawn(b) | Stmt::Fan(_, b) => stmts_ok(b),
            Stmt::JoinN(bs) | Stmt::Select(bs) | Stmt::SelectKeep(bs) => bs.iter().all(|b| stmts_ok(b)),
            _ => true,
        })
    }
    match c {
        Cmd::Async(_, t) => stmts_ok(t),
        Cmd::All(cs) | Cmd::Collect(cs) => cs.iter().all(expressible),
        Cmd::And(a, b) => expressible(a) && expressible(b),
        Cmd::MapEvent(_, c) => expressible(c),
        _ => false,
    }
}
