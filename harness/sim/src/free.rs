//! C08, second clause: *free-running* shell threads. Several OS threads call into one core (typed,
//! through the legacy capability API, or through either serialized bridge) at the same moment, with
//! no schedule control at all - the hardware and the OS choose the interleaving, below the
//! granularity of Engine B's schedule points and inside code that has none (the bridge's registry,
//! the legacy request futures). The witness of such a run is not totally ordered, so the reference
//! runtime cannot replay it; instead the universes are restricted to programs whose outcome does not
//! depend on the order of the calls (no select, no cancellation, no receiving end of a task-to-task
//! channel, no follow-up programs) and the run is compared with a *sequential twin*: a second
//! instance of the same host that is given the same calls one after the other. "Equivalent to some
//! sequential order of those calls" then means: the same effects (as a multiset, each returned by
//! exactly one call), the same resolution results, the same events applied, the same view.
//! Model-free invariants over the instrumentation trace are checked on top (they hold for every
//! program): hand-over exactly once, delivery exact, events once and per emitter in order,
//! update never re-entered, ids of outstanding requests distinct, quiescence afterwards.
//!
//! Which interleavings occur is not reproducible; the verdict is: any outcome that differs from the
//! twin's is a violation whatever the interleaving was. A replay file re-runs the case many times.

use crate::app::{App, Effect, EffectFfi, UniCtx, UniGuard};
use crate::conc::Job;
use crate::dsl::*;
use crate::shell::{Byte, HostKind};
use crate::trace::{Path, Sink, Tr};
use crux_core::bridge::{Bridge, BridgeWithSerializer};
use crux_core::{Core, Request};
use serde::{Deserialize, Serialize};
use std::collections::{BTreeMap, BTreeSet};
use std::sync::{Arc, Barrier};

#[derive(Debug, Clone, PartialEq, Eq, Hash, Serialize, Deserialize)]
pub struct FreeCase {
    pub universe: Universe,
    pub host: HostKind,
    /// phase -> thread -> the calls that thread makes, back to back
    pub phases: Vec<Vec<Vec<Job>>>,
}

#[derive(Debug, Default, Clone)]
pub struct FreeInfo {
    pub phases: usize,
    pub concurrent_phases: usize,
    pub max_threads: usize,
    pub calls: usize,
    pub resolutions: usize,
    /// >= 2 threads made a resolution in one phase
    pub concurrent_resolutions: bool,
    pub stream_items: usize,
    pub effects: usize,
    pub events: usize,
    pub drops: usize,
}

/// programs whose outcome is a function of the *set* of calls made, not of their order
pub fn order_independent(u: &Universe) -> bool {
    fn stmts_ok(t: &[Stmt]) -> bool {
        t.iter().all(|s| match s {
            Stmt::Select(_) | Stmt::SelectKeep(_) | Stmt::ChanRecv(_) | Stmt::AbortT(_) | Stmt::AbortCmd(_) | Stmt::Export(_) => false,
            Stmt::StreamLoop(_, b) | Stmt::Spawn(b) | Stmt::Fan(_, b) => stmts_ok(b),
            Stmt::JoinN(bs) => bs.iter().all(|b| stmts_ok(b)),
            _ => true,
        })
    }
    fn ok(c: &Cmd) -> bool {
        match c {
            Cmd::Then(a, b) | Cmd::And(a, b) => ok(a) && ok(b),
            Cmd::All(cs) | Cmd::Collect(cs) => cs.iter().all(ok),
            Cmd::MapEvent(_, c) | Cmd::MapEffect(_, c) => ok(c),
            Cmd::Abortable(..) => false,
            Cmd::WithSpawn(_, c, t) => ok(c) && stmts_ok(t),
            Cmd::Async(_, t) => stmts_ok(t),
            _ => true,
        }
    }
    u.follow.is_none() && u.programs.iter().all(ok)
}

enum FHost {
    Typed(Core<App>),
    Byte(Byte),
}

/// what the shell keeps of an outstanding request
enum Handle {
    Typed(Request<Op>),
    Id(u32),
}

type Got = Vec<(Op, Handle)>;

impl FHost {
    fn new(kind: HostKind) -> Self {
        match kind {
            HostKind::BridgeBincode => FHost::Byte(Byte::Bin(Bridge::new(Core::new()))),
            HostKind::BridgeJson => FHost::Byte(Byte::Json(BridgeWithSerializer::new(Core::new()))),
            _ => FHost::Typed(Core::new()),
        }
    }
    fn typed(effects: Vec<Effect>) -> Got {
        effects.into_iter().filter_map(|e| if let Effect::Sim(r) = e { Some((r.operation.clone(), Handle::Typed(r))) } else { None }).collect()
    }
    fn bytes(reqs: Vec<crux_core::bridge::Request<EffectFfi>>) -> Got {
        reqs.into_iter().filter_map(|q| if let EffectFfi::Sim(op) = q.effect { Some((op, Handle::Id(q.id.0))) } else { None }).collect()
    }
    fn event(&self, ev: Event) -> Result<Got, String> {
        match self {
            FHost::Typed(c) => Ok(Self::typed(c.process_event(ev))),
            FHost::Byte(b) => Ok(Self::bytes(b.event(&ev)?)),
        }
    }
    /// Ok(Err(_)) = the resolution was rejected
    fn resolve(&self, h: &mut Handle, out: Out) -> Result<Result<Got, String>, String> {
        match (self, h) {
            (FHost::Typed(c), Handle::Typed(r)) => Ok(c.resolve(r, out).map(Self::typed).map_err(|e| e.to_string())),
            (FHost::Byte(b), Handle::Id(id)) => Ok(b.respond(*id, &out)?.map(Self::bytes)),
            _ => Err("driver error: handle of the wrong kind".into()),
        }
    }
    fn view(&self) -> Result<Vec<Event>, String> {
        match self {
            FHost::Typed(c) => Ok(c.view()),
            FHost::Byte(b) => b.view(),
        }
    }
}

struct Side {
    host: Arc<FHost>,
    guard: UniGuard,
    sink: Arc<Sink>,
    /// outstanding requests the shell may still answer
    pool: BTreeMap<Path, (Op, Handle)>,
    view_len: usize,
}

impl Side {
    fn new(u: &Universe, kind: HostKind) -> Self {
        let sink = Sink::new();
        let guard = UniCtx::register(u, sink.clone(), kind == HostKind::Legacy);
        Side { host: Arc::new(FHost::new(kind)), guard, sink, pool: BTreeMap::new(), view_len: 0 }
    }
    fn uni_id(&self) -> u64 {
        self.guard.0.id
    }
}

#[derive(Clone)]
enum Work {
    /// typed hosts: drop the request unanswered, then make a no-op call
    Drop(Path),
    Resolve(Path, Out),
    Send(Option<u16>),
    View,
}

enum Done {
    Resolved(Path, Handle, u32, Result<Got, String>),
    Sent(Got),
    Viewed(Vec<Event>),
}

/// what one phase made observable, in a form that can be compared across runs
#[derive(Debug, PartialEq)]
struct PhaseObs {
    effects: Vec<Op>,
    /// (request, nonce, accepted)
    resolved: Vec<(Path, u32, bool)>,
    /// events applied during the phase (as a multiset: the order across emitters is not specified)
    applied: Vec<Event>,
}

/// what is compared with the twin: the universe id differs by construction, and the sequence number
/// an opaque builder chain gives to an event depends on the order in which its concurrently
/// outstanding inner requests were answered (per-emitter order and exactly-once are checked on the
/// concurrent side's own trace)
fn norm(e: &Event) -> Event {
    match e {
        Event::Start { prog, .. } => Event::Start { uni: 0, prog: *prog },
        Event::Tag { tag, from, val } => Event::Tag { tag: *tag, from: from[..from.len().saturating_sub(1)].to_vec(), val: *val },
        Event::Mapped(i, e) => Event::Mapped(*i, Box::new(norm(e))),
        e => e.clone(),
    }
}

fn make_event(side: &Side, w: &Option<u16>) -> Event {
    match w {
        Some(p) => Event::Start { uni: side.uni_id(), prog: *p },
        None => Event::Noop,
    }
}

fn exec(host: &FHost, side_uni: u64, sink: &Sink, w: Work, handle: Option<Handle>) -> Result<Done, String> {
    Ok(match w {
        Work::Resolve(path, out) => {
            let mut h = handle.ok_or("driver error: no handle")?;
            sink.push(Tr::Resolve(path.clone(), out.clone()));
            let nonce = out.nonce;
            let r = host.resolve(&mut h, out)?;
            Done::Resolved(path, h, nonce, r)
        }
        Work::Drop(path) => {
            sink.push(Tr::DropReq(path));
            drop(handle);
            Done::Sent(host.event(Event::Noop)?)
        }
        Work::Send(p) => Done::Sent(host.event(match p {
            Some(p) => Event::Start { uni: side_uni, prog: p },
            None => Event::Noop,
        })?),
        Work::View => Done::Viewed(host.view()?),
    })
}

/// absorb the results of a phase into the side's pool and produce the comparable observation
fn absorb(side: &mut Side, done: Vec<Done>, returned_ever: Option<&mut BTreeSet<Path>>, views: &mut Vec<Vec<Event>>) -> Result<PhaseObs, String> {
    let mut effects = vec![];
    let mut resolved = vec![];
    let mut fresh: Got = vec![];
    for d in done {
        match d {
            Done::Resolved(path, h, nonce, r) => {
                resolved.push((path.clone(), nonce, r.is_ok()));
                if let Ok(g) = r {
                    fresh.extend(g);
                    // a stream stays outstanding
                    if let Some((op, _)) = side.pool.get(&path) {
                        if op.kind == SUB {
                            let op = op.clone();
                            side.pool.insert(path, (op, h));
                        }
                    }
                }
            }
            Done::Sent(g) => fresh.extend(g),
            Done::Viewed(v) => views.push(v),
        }
    }
    // one-shots that were resolved (or anything that was rejected) are gone
    for (p, _, ok) in &resolved {
        let gone = match side.pool.get(p) {
            Some((op, _)) => op.kind != SUB || !*ok,
            None => false,
        };
        if gone {
            side.pool.remove(p);
        }
    }
    let mut seen = returned_ever;
    for (op, h) in fresh {
        if let Some(seen) = seen.as_deref_mut() {
            if !seen.insert(op.path.clone()) {
                return Err(format!("effect {:?} was returned twice (by two calls, or twice by one)", op.path));
            }
        }
        effects.push(op.clone());
        if op.kind != NOTE {
            side.pool.insert(op.path.clone(), (op, h));
        }
    }
    effects.sort();
    resolved.sort();
    let view = side.host.view()?;
    if view.len() < side.view_len {
        return Err(format!("the view lost events: {} before the phase, {} after", side.view_len, view.len()));
    }
    let mut applied: Vec<Event> = view[side.view_len..].iter().map(norm).collect();
    applied.sort();
    side.view_len = view.len();
    Ok(PhaseObs { effects, resolved, applied })
}

/// model-free invariants over the trace of one phase of the concurrent side
struct Inv {
    sent: BTreeMap<Path, Vec<u32>>,
    received: BTreeMap<Path, Vec<u32>>,
    next_seq: BTreeMap<Vec<u16>, u16>,
    updates: Vec<Event>,
}

impl Inv {
    fn check(&mut self, trace: &[Tr], obs: &PhaseObs, kinds: &BTreeMap<Path, u8>) -> Result<(), String> {
        let returned: BTreeSet<&Path> = obs.effects.iter().map(|o| &o.path).collect();
        for (p, n, ok) in &obs.resolved {
            if *ok {
                self.sent.entry(p.clone()).or_default().push(*n);
            }
        }
        let mut emitted = vec![];
        let mut applied_now: BTreeSet<Vec<u16>> = BTreeSet::new();
        for t in trace {
            match t {
                Tr::FirstPoll(p) if !returned.contains(p) => return Err(format!("request {p:?} was issued by a task during these calls but none of them returned it")),
                Tr::Got(p, n, d) | Tr::Item(p, n, d) => {
                    let acc = self.sent.get(p).cloned().unwrap_or_default();
                    let got = self.received.entry(p.clone()).or_default();
                    if !acc.contains(n) {
                        return Err(format!("request {p:?} was resolved with {acc:?} but its task received {n}, which the shell never passed to this request"));
                    }
                    if got.contains(n) {
                        return Err(format!("request {p:?}: value {n} was delivered twice"));
                    }
                    if kinds.get(p) == Some(&REQ) && !got.is_empty() {
                        return Err(format!("one-shot request {p:?} delivered a second value ({n} after {got:?})"));
                    }
                    if acc.get(got.len()) != Some(n) {
                        return Err(format!("stream {p:?}: the shell passed {acc:?}, the task received {n} after {got:?} (out of order or with a gap)"));
                    }
                    got.push(*n);
                    if *d != Out::new(*n).digest() {
                        return Err(format!("request {p:?} was resolved with nonce {n} but the task received different payload bytes"));
                    }
                }
                Tr::Emit(from, _) => emitted.push(from.clone()),
                Tr::Update(e) => {
                    self.updates.push(e.clone());
                    if let Event::Tag { from, .. } = e.innermost() {
                        applied_now.insert(from.clone());
                    }
                    if let Some((emitter, seq)) = e.emitter() {
                        let next = self.next_seq.entry(emitter.to_vec()).or_insert(0);
                        if seq < *next {
                            return Err(format!("update applied {e:?} twice"));
                        }
                        if seq > *next {
                            return Err(format!("update applied {e:?} before an earlier event of the same emitter (event {} of {emitter:?} has not been applied)", *next));
                        }
                        *next = seq + 1;
                    }
                }
                _ => {}
            }
        }
        for from in emitted {
            if !applied_now.contains(&from) {
                return Err(format!("an event was emitted but not applied when all calls had returned: {from:?} (emitter + sequence number)"));
            }
        }
        Ok(())
    }
}

pub fn run_free(case: &FreeCase) -> Result<FreeInfo, String> {
    let mut u = case.universe.clone();
    crate::gen::sanitize(&mut u);
    u.follow = None;
    if !order_independent(&u) {
        return Err("driver error: the universe is not order-independent".into());
    }
    let legacy = case.host == HostKind::Legacy;
    if legacy && !u.programs.iter().all(crate::legacy::expressible) {
        return Err("driver error: the universe cannot be expressed in the legacy API".into());
    }
    let mut conc = Side::new(&u, case.host);
    let mut twin = Side::new(&u, case.host);
    let mut info = FreeInfo::default();
    let mut returned_ever = BTreeSet::new();
    let mut inv = Inv { sent: BTreeMap::new(), received: BTreeMap::new(), next_seq: BTreeMap::new(), updates: vec![] };
    let mut kinds: BTreeMap<Path, u8> = BTreeMap::new();
    let mut traced: BTreeSet<Path> = BTreeSet::new();
    let mut nonce = 0u32;

    // phase 0: start the first program, alone, on both sides
    let first = vec![vec![Job::Start(0)]];
    let phases = std::iter::once(&first).chain(case.phases.iter());
    for (pi, threads) in phases.enumerate() {
        // ---- materialise the calls of this phase against the concurrent side's pool
        let mut avail: Vec<Path> = conc.pool.keys().cloned().collect();
        let mut started = false;
        let mut dropped_now: Vec<Path> = vec![];
        let mut plan: Vec<Vec<Work>> = vec![];
        for jobs in threads.iter().take(4) {
            let mut mine = vec![];
            for j in jobs.iter().take(4) {
                match j {
                    Job::Resolve(c) => {
                        if avail.is_empty() {
                            continue;
                        }
                        let p = avail.remove(pick(*c, avail.len()));
                        nonce += 1;
                        mine.push(Work::Resolve(p, Out::new(nonce)));
                    }
                    Job::Drop(c) => {
                        // (a serialized shell holds ids, not request objects: nothing to drop there)
                        // only requests of leaves the trace can see: when the invisible task of an opaque chain is
                        // discarded after a drop cannot be told, and whether a concurrent resolution of another of
                        // its requests is accepted depends on exactly that moment
                        let cands: Vec<usize> = (0..avail.len()).filter(|i| traced.contains(&avail[*i])).collect();
                        // (in the legacy API a dropped request wakes nobody: whether its task ever notices depends on
                        // what else wakes it afterwards, i.e. on the order of the calls)
                        if cands.is_empty() || matches!(*conc.host, FHost::Byte(_)) || legacy {
                            continue;
                        }
                        let p = avail.remove(cands[pick(*c, cands.len())]);
                        dropped_now.push(p.clone());
                        mine.push(Work::Drop(p));
                    }
                    Job::Start(p) if !started => {
                        started = true;
                        mine.push(Work::Send(Some((*p as usize % u.programs.len()) as u16)));
                    }
                    Job::Start(_) | Job::Noop => mine.push(Work::Send(None)),
                    Job::View => mine.push(Work::View),
                }
            }
            if !mine.is_empty() {
                plan.push(mine);
            }
        }
        if plan.is_empty() {
            continue;
        }
        info.phases += 1;
        info.max_threads = info.max_threads.max(plan.len());
        info.calls += plan.iter().map(|p| p.len()).sum::<usize>();
        let resolving = plan.iter().filter(|p| p.iter().any(|w| matches!(w, Work::Resolve(..)))).count();
        info.resolutions += plan.iter().flatten().filter(|w| matches!(w, Work::Resolve(..))).count();
        if plan.len() >= 2 {
            info.concurrent_phases += 1;
        }
        if resolving >= 2 {
            info.concurrent_resolutions = true;
        }

        // ---- the concurrent side: one OS thread per entry of the plan, released together
        let barrier = Arc::new(Barrier::new(plan.len()));
        let uni_id = conc.uni_id();
        let mut joins = vec![];
        for mine in plan.iter().cloned() {
            let handles: Vec<Option<Handle>> = mine.iter().map(|w| if let Work::Resolve(p, _) | Work::Drop(p) = w { conc.pool.get_mut(p).map(|(_, h)| std::mem::replace(h, Handle::Id(u32::MAX))) } else { None }).collect();
            let (host, sink, barrier) = (conc.host.clone(), conc.sink.clone(), barrier.clone());
            joins.push(std::thread::spawn(move || -> Result<Vec<Done>, String> {
                barrier.wait();
                let mut out = vec![];
                for (w, h) in mine.into_iter().zip(handles) {
                    out.push(exec(&host, uni_id, &sink, w, h)?);
                }
                Ok(out)
            }));
        }
        let mut done = vec![];
        for j in joins {
            match j.join() {
                Ok(Ok(d)) => done.extend(d),
                Ok(Err(e)) => return Err(e),
                Err(p) => {
                    let msg = p.downcast_ref::<String>().cloned().or_else(|| p.downcast_ref::<&str>().map(|s| s.to_string())).unwrap_or_default();
                    return Err(format!("a shell thread panicked inside the core during phase {pi}: {msg}"));
                }
            }
        }
        let mut views = vec![];
        let got = absorb(&mut conc, done, Some(&mut returned_ever), &mut views)?;
        for p in &dropped_now {
            conc.pool.remove(p);
        }
        for o in &got.effects {
            kinds.insert(o.path.clone(), o.kind);
        }
        if pi == 0 {
            // (the sequential prologue is judged like any other phase)
        }
        let trace = conc.sink.take();
        traced.extend(trace.iter().filter_map(|t| if let Tr::FirstPoll(p) = t { Some(p.clone()) } else { None }));
        inv.check(&trace, &got, &kinds)?;
        let view = conc.host.view()?;
        if view != inv.updates {
            return Err(format!("the view shows {} events, update was given {} (or in another order)", view.len(), inv.updates.len()));
        }
        for v in views {
            if v.len() > view.len() || view[..v.len()] != v[..] {
                return Err("a concurrent view read is not a prefix of the log after the phase".into());
            }
        }
        if conc.guard.0.reentered.load(std::sync::atomic::Ordering::SeqCst) {
            return Err("update was entered while another update was running".into());
        }
        // ids of the requests outstanding after the phase are distinct
        let mut ids: BTreeMap<u32, &Path> = BTreeMap::new();
        for (p, (_, h)) in &conc.pool {
            if let Handle::Id(id) = h {
                if let Some(other) = ids.insert(*id, p) {
                    return Err(format!("two outstanding requests carry the id {id}: {other:?} and {p:?}"));
                }
            }
        }

        // ---- the twin: the same calls, one after the other
        let mut tdone = vec![];
        let tuni = twin.uni_id();
        for mine in plan.iter().cloned() {
            for w in mine {
                let h = if let Work::Resolve(p, _) | Work::Drop(p) = &w {
                    match twin.pool.get_mut(p) {
                        Some((_, h)) => Some(std::mem::replace(h, Handle::Id(u32::MAX))),
                        None => return Err(format!("the sequential twin has no outstanding request {p:?} although the concurrent run has (the two diverged in an earlier phase)")),
                    }
                } else {
                    None
                };
                tdone.push(exec(&twin.host, tuni, &twin.sink, w, h)?);
            }
        }
        let mut tviews = vec![];
        let mut want = absorb(&mut twin, tdone, None, &mut tviews)?;
        for p in &dropped_now {
            twin.pool.remove(p);
        }
        info.drops += dropped_now.len();
        let ttrace = twin.sink.take();
        // A stream whose consumer ends during this phase (a loop that stops after n items) accepts an
        // item or not depending on which call comes first: both answers belong to a sequential order.
        // Such a stream is dead afterwards on both sides, whatever the answers were.
        let ended = |tr: &[Tr]| -> BTreeSet<Path> { tr.iter().filter_map(|t| if let Tr::LeafDropped(p) | Tr::StreamEnd(p) = t { Some(p.clone()) } else { None }).collect() };
        let (ended_conc, ended_twin) = (ended(&trace), ended(&ttrace));
        let mut got = got;
        for p in ended_conc.intersection(&ended_twin) {
            if kinds.get(p) == Some(&SUB) {
                for side in [&mut got, &mut want] {
                    for r in side.resolved.iter_mut().filter(|r| &r.0 == p) {
                        r.2 = false;
                    }
                }
                conc.pool.remove(p);
                twin.pool.remove(p);
            }
        }
        if got != want {
            let what = if got.effects != want.effects {
                format!("effects returned by the concurrent calls: {:?}; by the same calls made one after the other: {:?}", got.effects, want.effects)
            } else if got.resolved != want.resolved {
                format!("resolution results (request, nonce, accepted) of the concurrent calls: {:?}; one after the other: {:?} (streams whose consumer ended during the phase count as rejected on both sides)", got.resolved, want.resolved)
            } else {
                format!("events applied during the concurrent calls: {:?}; during the same calls made one after the other: {:?}", got.applied, want.applied)
            };
            return Err(format!("phase {pi}: the outcome is not that of a sequential order of the calls - {what}"));
        }
        info.effects += got.effects.len();
        info.events += got.applied.len();
        info.stream_items += got.resolved.iter().filter(|(p, _, ok)| *ok && kinds.get(p) == Some(&SUB)).count();
    }

    // quiescence: one more call changes nothing
    let extra = conc.host.event(Event::Noop)?;
    if !extra.is_empty() {
        return Err(format!("a no-op event after all calls had returned produced effects {:?}: work was left behind", extra.iter().map(|(o, _)| &o.path).collect::<Vec<_>>()));
    }
    let view = conc.host.view()?;
    let extra_events = view.len() - conc.view_len - 1;
    if extra_events != 0 {
        return Err(format!("a no-op event after all calls had returned applied {extra_events} further events: work was left behind"));
    }
    let _ = make_event;
    drop(conc);
    drop(twin);
    Ok(info)
}
