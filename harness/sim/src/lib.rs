//! Engine A (`sim`): generated programs × shell schedules × hosts, judged by trace invariants and
//! by trace-guided refinement against a reference runtime. See /verif/DESIGN.md §4.
pub mod app;
pub mod conc;
pub mod cruxrt;
pub mod dsl;
pub mod fault;
pub mod free;
pub mod gen;
pub mod l1;
pub mod legacy;
pub mod refrt;
pub mod rt;
pub mod shell;
pub mod trace;
