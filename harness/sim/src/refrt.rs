//! The reference runtime and the trace-guided refinement check (DESIGN §4.4, Appendix A).
//!
//! No wakers, no reference counts, no crux code. Futures are the interpreter's own and are polled
//! with a no-op waker; the order of polls is taken from the witness trace of the real run.

use crate::app::{follow_up, instantiate};
use crate::dsl::*;
use crate::rt::*;
use crate::trace::{Path, Sink, Tr};
use futures::future::BoxFuture;
use futures::stream::BoxStream;
use futures::{FutureExt, Stream, StreamExt};
use std::collections::VecDeque;
use std::future::Future;
use std::pin::Pin;
use std::sync::atomic::{AtomicBool, Ordering};
use std::sync::{Arc, Mutex};
use std::task::{Context, Poll, RawWaker, RawWakerVTable, Waker};

pub type Gid = usize;
pub type Tid = usize;
pub type Cid = usize;

#[derive(Clone, Copy, PartialEq, Debug)]
enum Src {
    Cell(Cid, u64),
    /// a pending join (registration, target task): counts only while the joining future exists
    Task(usize, Tid),
    Group(Gid),
    /// a pending receive on a task-to-task channel (receiver, channel version seen): the channel is
    /// never closed, so this is a live wake source for as long as the receiving future exists
    Recv(usize, u64),
}

#[derive(Default)]
struct RefChan {
    queue: VecDeque<u32>,
    version: u64,
    /// the pending receivers and the waker of their latest poll, kept exactly like the real channel
    /// keeps them (same order, replaced on re-poll, removed with the future): inside a sub-executor
    /// the order of wake-ups decides which of two competing branches of one task receives a value
    waiters: Vec<(usize, Waker)>,
}

pub struct Cell {
    pub op: Op,
    owner: Option<Tid>,
    legacy: bool,
    pub sent: bool,
    queue: VecDeque<Out>,
    pub dropped: bool,
    pub resolved_once: bool,
    pub consumer_gone: bool,
    version: u64,
    /// the waker of the last pending poll: sub-executors inside a task (join_all over 30 futures,
    /// flatten_unordered) only re-poll the children whose own waker was used
    waker: Option<Waker>,
}

struct Group {
    parent: Option<Gid>,
    event_mark: Option<u16>,
    effect_mark: Option<u16>,
    children: Vec<Gid>,
    live_tasks: usize,
    aborted: bool,
    /// aborted by one of its own tasks during the call that is being replayed: until that call
    /// returns the other tasks of the command may still run (they were scheduled in the same pass);
    /// when it returns the command has been cleared
    soft: bool,
}

struct Task {
    path: Option<Path>,
    fut: Option<BoxFuture<'static, ()>>,
    group: Gid,
    aborted: Arc<AtomicBool>,
    finished: Arc<AtomicBool>,
    waiting: Vec<Src>,
    polled_once: bool,
    self_woken: bool,
    legacy: bool,
    /// inside a construct that keeps a waker clone (known finding F-evict-retained)
    retaining: bool,
    /// how many such constructs the task is inside of right now
    retaining_depth: u32,
    /// wakers of pending joins on this task (sub-executors inside a task re-poll only woken children)
    join_wakers: Vec<Waker>,
}

#[derive(Default)]
pub struct World {
    cells: Vec<Cell>,
    groups: Vec<Group>,
    tasks: Vec<Option<Task>>,
    pub effects: Vec<Op>,
    pub events: Vec<Event>,
    pub pending: Vec<Event>,
    pub applied: Vec<Event>,
    slots: Vec<(u16, Gid)>,
    /// every `Abortable` node of every program instantiated so far (its handle exists from the
    /// moment `update` built the command, long before the node is launched)
    known_slots: Vec<u16>,
    /// handles that were used before their command was launched
    pre_aborted: Vec<u16>,
    exports: Vec<(Path, JoinH)>,
    chans: Vec<RefChan>,
    /// joining futures created so far: dropped or finished?
    joins_gone: Vec<bool>,
    /// receiving futures created so far: (channel, dropped or finished)
    recvs: Vec<(usize, bool)>,
    pre_dropped: Vec<Path>,
    /// groups of the commands returned by update (command API), in launch order: an outer group that
    /// stands for the command object itself (tasks spawned on it later live there, outside whatever
    /// the outermost node maps) ...
    hosted: Vec<Gid>,
    /// ... and whether the shell may spawn on it (not if its outermost node hands out an abort handle:
    /// the handle would cover the late task too)
    hosted_spawnable: Vec<bool>,
    cur_task: Option<Tid>,
    cur_wait: Vec<Src>,
    cur_selfwake: bool,
    programs: Vec<Cmd>,
    follow: Option<(u8, u8)>,
    instances: u16,
    pub follow_ups: u16,
    legacy_host: bool,
    /// mixed core: programs run through the legacy API although the host is not the legacy host
    legacy_mask: u8,
    /// tolerate the known retaining-construct finding (tasks linger instead of being discarded)
    pub tolerate_retaining: bool,
    /// (nonce, accepted?) for every replayed resolution: what the shell must have been told
    pub resolve_log: Vec<(u32, bool)>,
    pub used_retaining_exemption: u64,
    /// tolerate the known finding that the legacy executor keeps a task whose request was dropped
    pub tolerate_legacy_kept: bool,
    pub used_legacy_exemption: u64,
    pub spurious_polls: u64,
    /// (request, nonce) of every value a leaf future of the reference handed to its task, in order
    pub delivered: Vec<(Path, u32)>,
    /// how many times a command or task was cancelled so far (by the shell or by a task)
    pub cancellations: u64,
}

/// disposes of the reference runtime when a case ends, on every exit path
pub struct Disposer(pub RefRt);
impl Drop for Disposer {
    fn drop(&mut self) {
        self.0.dispose();
    }
}

#[derive(Clone)]
pub struct RefRt {
    w: Arc<Mutex<World>>,
    group: Gid,
    legacy: bool,
    sink: Arc<Sink>,
    /// slots of the `Abortable` nodes this part of the program lives under, outermost first
    enclosing: Arc<Vec<u16>>,
}

impl World {
    fn done(&self, g: Gid) -> bool {
        self.groups[g].live_tasks == 0 && self.groups[g].children.iter().all(|c| self.done(*c))
    }
    fn live(&self, s: &Src) -> bool {
        match *s {
            Src::Cell(c, _) => !self.cells[c].dropped && !self.cells[c].consumer_gone,
            Src::Task(j, t) => !self.joins_gone[j] && self.tasks[t].is_some(),
            Src::Group(g) => !self.done(g),
            Src::Recv(r, _) => !self.recvs[r].1,
        }
    }
    fn changed(&self, s: &Src) -> bool {
        match *s {
            Src::Cell(c, v) => self.cells[c].version != v && !self.cells[c].consumer_gone,
            Src::Task(j, t) => !self.joins_gone[j] && self.tasks[t].is_none(),
            Src::Group(g) => self.done(g),
            Src::Recv(r, v) => !self.recvs[r].1 && self.chans[self.recvs[r].0].version != v,
        }
    }
    fn aborted_ancestors(&self, g: Gid) -> Vec<Gid> {
        // innermost first
        let mut out = vec![];
        let mut g = Some(g);
        while let Some(gi) = g {
            if self.groups[gi].aborted {
                out.push(gi);
            }
            g = self.groups[gi].parent;
        }
        out
    }
    fn in_aborted(&self, g: Gid) -> bool {
        !self.aborted_ancestors(g).is_empty()
    }
    fn in_subtree(&self, mut g: Gid, root: Gid) -> bool {
        loop {
            if g == root {
                return true;
            }
            match self.groups[g].parent {
                Some(p) => g = p,
                None => return false,
            }
        }
    }
    fn new_cell(&mut self, op: Op, legacy: bool) -> Cid {
        self.cells.push(Cell { op, owner: self.cur_task, legacy, sent: false, queue: VecDeque::new(), dropped: false, resolved_once: false, consumer_gone: false, version: 0, waker: None });
        self.cells.len() - 1
    }
    fn new_group(&mut self, parent: Option<Gid>) -> Gid {
        self.groups.push(Group { parent, event_mark: None, effect_mark: None, children: vec![], live_tasks: 0, aborted: false, soft: false });
        let g = self.groups.len() - 1;
        if let Some(p) = parent {
            self.groups[p].children.push(g);
        }
        g
    }
    fn add_task(&mut self, group: Gid, path: Option<Path>, legacy: bool, fut: BoxFuture<'static, ()>) -> (Tid, Arc<AtomicBool>, Arc<AtomicBool>) {
        let aborted = Arc::new(AtomicBool::new(false));
        let finished = Arc::new(AtomicBool::new(false));
        self.tasks.push(Some(Task { path, fut: Some(fut), group, aborted: aborted.clone(), finished: finished.clone(), waiting: vec![], polled_once: false, self_woken: false, legacy, retaining: false, retaining_depth: 0, join_wakers: vec![] }));
        self.groups[group].live_tasks += 1;
        (self.tasks.len() - 1, aborted, finished)
    }
    fn push_effect(&mut self, mut op: Op, group: Option<Gid>) {
        let mut g = group.or_else(|| self.cur_task.and_then(|t| self.tasks[t].as_ref().map(|t| t.group)));
        while let Some(gi) = g {
            if let Some(m) = self.groups[gi].effect_mark {
                op.marks.push(m);
            }
            g = self.groups[gi].parent;
        }
        self.effects.push(op);
    }
    /// an abort handle is used: the command is aborted now, or as soon as it is launched
    fn abort_slot(&mut self, slot: u16, from_inside: bool) {
        self.cancellations += 1;
        let gs: Vec<Gid> = self.slots.iter().filter(|(s, _)| *s == slot).map(|(_, g)| *g).collect();
        if gs.is_empty() {
            self.pre_aborted.push(slot);
        }
        for g in gs {
            if from_inside && !self.groups[g].aborted {
                self.groups[g].soft = true;
            } else {
                self.groups[g].aborted = true;
            }
        }
    }
    fn in_soft(&self, g: Gid) -> bool {
        let mut g = Some(g);
        while let Some(gi) = g {
            if self.groups[gi].soft {
                return true;
            }
            g = self.groups[gi].parent;
        }
        false
    }
    fn cell_by_path(&mut self, path: &Path) -> Option<&mut Cell> {
        self.cells.iter_mut().find(|c| &c.op.path == path && c.sent)
    }
}

// ------------------------------------------------------------------ leaves

struct RefReq {
    w: Arc<Mutex<World>>,
    id: Cid,
}

impl Future for RefReq {
    type Output = Out;
    fn poll(self: Pin<&mut Self>, cx: &mut Context<'_>) -> Poll<Out> {
        let mut w = self.w.lock().unwrap();
        let id = self.id;
        if !w.cells[id].sent {
            w.cells[id].sent = true;
            let op = w.cells[id].op.clone();
            w.push_effect(op, None);
        }
        if let Some(v) = w.cells[id].queue.pop_front() {
            let p = w.cells[id].op.path.clone();
            w.delivered.push((p, v.nonce));
            return Poll::Ready(v);
        }
        let ver = w.cells[id].version;
        w.cur_wait.push(Src::Cell(id, ver));
        w.cells[id].waker = Some(cx.waker().clone());
        Poll::Pending
    }
}

impl Drop for RefReq {
    fn drop(&mut self) {
        // the registration dies with the future (the waker is dropped outside the lock)
        let stale = {
            let mut w = self.w.lock().unwrap();
            w.cells[self.id].consumer_gone = true;
            w.cells[self.id].waker.take()
        };
        drop(stale);
    }
}

struct RefSub {
    w: Arc<Mutex<World>>,
    id: Cid,
}

impl Stream for RefSub {
    type Item = Out;
    fn poll_next(self: Pin<&mut Self>, cx: &mut Context<'_>) -> Poll<Option<Out>> {
        let mut w = self.w.lock().unwrap();
        let id = self.id;
        if !w.cells[id].sent {
            w.cells[id].sent = true;
            let op = w.cells[id].op.clone();
            w.push_effect(op, None);
        }
        if let Some(v) = w.cells[id].queue.pop_front() {
            let p = w.cells[id].op.path.clone();
            w.delivered.push((p, v.nonce));
            return Poll::Ready(Some(v));
        }
        if w.cells[id].dropped {
            return Poll::Ready(None);
        }
        let ver = w.cells[id].version;
        w.cur_wait.push(Src::Cell(id, ver));
        w.cells[id].waker = Some(cx.waker().clone());
        Poll::Pending
    }
}

impl Drop for RefSub {
    fn drop(&mut self) {
        let stale = {
            let mut w = self.w.lock().unwrap();
            w.cells[self.id].consumer_gone = true;
            w.cells[self.id].waker.take()
        };
        drop(stale);
    }
}

struct RefJoin {
    w: Arc<Mutex<World>>,
    fin: Arc<AtomicBool>,
    tid: Tid,
    jid: usize,
    /// the last registration was made with the task's own waker (not with a sub-executor's)
    top: bool,
}
impl Future for RefJoin {
    type Output = ();
    fn poll(mut self: Pin<&mut Self>, cx: &mut Context<'_>) -> Poll<()> {
        if self.fin.load(Ordering::SeqCst) {
            return Poll::Ready(());
        }
        self.top = cx.waker().will_wake(&noop_waker());
        let mut w = self.w.lock().unwrap();
        w.cur_wait.push(Src::Task(self.jid, self.tid));
        if let Some(t) = w.tasks[self.tid].as_mut() {
            t.join_wakers.push(cx.waker().clone());
        }
        Poll::Pending
    }
}
impl Drop for RefJoin {
    fn drop(&mut self) {
        // A join handle never takes back the waker it has queued with the joined task: abandoned (a
        // losing select branch), it still wakes the task that polled it when the joined task finishes,
        // and until then the real runtime sees a live copy of that poll's waker. That holds for the
        // task's own waker; a registration made through a sub-executor's waker dies with the future.
        if !self.top {
            self.w.lock().unwrap().joins_gone[self.jid] = true;
        }
    }
}

struct RefRecv {
    w: Arc<Mutex<World>>,
    id: usize,
    c: usize,
}
impl Future for RefRecv {
    type Output = u32;
    fn poll(self: Pin<&mut Self>, cx: &mut Context<'_>) -> Poll<u32> {
        let mut w = self.w.lock().unwrap();
        let (c, id) = (self.c, self.id);
        let mut stale = vec![];
        let (gone, kept): (Vec<_>, Vec<_>) = std::mem::take(&mut w.chans[c].waiters).into_iter().partition(|(i, _)| *i == id);
        w.chans[c].waiters = kept;
        stale.extend(gone);
        let r = if let Some(v) = w.chans[c].queue.pop_front() {
            Poll::Ready(v)
        } else {
            let ver = w.chans[c].version;
            w.cur_wait.push(Src::Recv(id, ver));
            w.chans[c].waiters.push((id, cx.waker().clone()));
            Poll::Pending
        };
        drop(w);
        drop(stale);
        r
    }
}
impl Drop for RefRecv {
    fn drop(&mut self) {
        let gone: Vec<_> = {
            let mut w = self.w.lock().unwrap();
            w.recvs[self.id].1 = true;
            let (gone, kept) = std::mem::take(&mut w.chans[self.c].waiters).into_iter().partition(|(i, _)| *i == self.id);
            w.chans[self.c].waiters = kept;
            gone
        };
        drop(gone);
    }
}

impl Rt for RefRt {
    fn notify(&self, op: Op) -> BoxFuture<'static, ()> {
        self.w.lock().unwrap().push_effect(op, Some(self.group));
        futures::future::ready(()).boxed()
    }
    fn request(&self, op: Op) -> BoxFuture<'static, Out> {
        let id = self.w.lock().unwrap().new_cell(op, self.legacy);
        RefReq { w: self.w.clone(), id }.boxed()
    }
    fn stream(&self, op: Op) -> BoxStream<'static, Out> {
        let id = self.w.lock().unwrap().new_cell(op, self.legacy);
        RefSub { w: self.w.clone(), id }.boxed()
    }
    fn chain_rr(&self, a: Op, b: Op) -> BoxFuture<'static, Out> {
        let r = self.clone();
        async move {
            let _ = r.request(a).await;
            r.request(b).await
        }
        .boxed()
    }
    fn emit(&self, ev: Event) {
        let mut w = self.w.lock().unwrap();
        let mut ev = ev;
        let mut g = Some(self.group);
        while let Some(gi) = g {
            if let Some(m) = w.groups[gi].event_mark {
                ev = Event::Mapped(m, Box::new(ev));
            }
            g = w.groups[gi].parent;
        }
        w.events.push(ev.clone());
        w.pending.push(ev);
    }
    fn spawn(&self, path: Path, f: Box<dyn FnOnce(Self) -> BoxFuture<'static, ()> + Send>) -> JoinH {
        let fut = f(self.clone());
        let (tid, aborted, finished) = self.w.lock().unwrap().add_task(self.group, Some(path), self.legacy, fut);
        if self.legacy {
            return JoinH::none();
        }
        let w = self.w.clone();
        JoinH {
            wait: Arc::new(move || {
                let jid = {
                    let mut w = w.lock().unwrap();
                    w.joins_gone.push(false);
                    w.joins_gone.len() - 1
                };
                RefJoin { w: w.clone(), fin: finished.clone(), tid, jid, top: true }.boxed()
            }),
            abort: {
                let w = self.w.clone();
                // (try_lock: the handle may be used from inside a poll that holds no lock, or by the driver)
                Arc::new(move || {
                    aborted.store(true, Ordering::SeqCst);
                    if let Ok(mut w) = w.try_lock() {
                        w.cancellations += 1;
                    }
                })
            },
        }
    }
    fn yield_now(&self) -> BoxFuture<'static, ()> {
        let w = self.w.clone();
        let mut first = true;
        futures::future::poll_fn(move |cx| {
            if first {
                first = false;
                w.lock().unwrap().cur_selfwake = true;
                // (a no-op for the task itself; a sub-executor inside the task re-polls only woken children)
                cx.waker().wake_by_ref();
                Poll::Pending
            } else {
                Poll::Ready(())
            }
        })
        .boxed()
    }
    fn chan_send(&self, c: usize, v: u32) {
        let wakers = {
            let mut w = self.w.lock().unwrap();
            let ch = &mut w.chans[c];
            ch.queue.push_back(v);
            ch.version += 1;
            std::mem::take(&mut ch.waiters)
        };
        for (_, wk) in wakers {
            wk.wake();
        }
    }
    fn chan_recv(&self, c: usize) -> BoxFuture<'static, u32> {
        let id = {
            let mut w = self.w.lock().unwrap();
            w.recvs.push((c, false));
            w.recvs.len() - 1
        };
        RefRecv { w: self.w.clone(), id, c }.boxed()
    }
    fn export(&self, key: Path, h: JoinH) {
        self.w.lock().unwrap().exports.push((key, h));
    }
    fn abort_cmd(&self, choice: u16) -> bool {
        if self.enclosing.is_empty() {
            return false;
        }
        let slot = self.enclosing[pick(choice, self.enclosing.len())];
        self.w.lock().unwrap().abort_slot(slot, true);
        true
    }
    fn retaining(&self, on: bool) {
        let mut w = self.w.lock().unwrap();
        if let Some(t) = w.cur_task {
            if let Some(t) = w.tasks[t].as_mut() {
                t.retaining_depth = if on { t.retaining_depth + 1 } else { t.retaining_depth.saturating_sub(1) };
                t.retaining = t.retaining_depth > 0;
            }
        }
    }
}

fn collect_slots(c: &Cmd, out: &mut Vec<u16>) {
    match c {
        Cmd::Abortable(slot, c) => {
            out.push(*slot);
            collect_slots(c, out);
        }
        Cmd::Then(a, b) | Cmd::And(a, b) => {
            collect_slots(a, out);
            collect_slots(b, out);
        }
        Cmd::All(cs) | Cmd::Collect(cs) => cs.iter().for_each(|c| collect_slots(c, out)),
        Cmd::MapEvent(_, c) | Cmd::MapEffect(_, c) | Cmd::WithSpawn(_, c, _) => collect_slots(c, out),
        _ => {}
    }
}

fn noop_waker() -> Waker {
    fn c(_: *const ()) -> RawWaker {
        RawWaker::new(std::ptr::null(), &VT)
    }
    fn n(_: *const ()) {}
    static VT: RawWakerVTable = RawWakerVTable::new(c, n, n, n);
    // SAFETY: the vtable functions do nothing and the data pointer is never dereferenced
    unsafe { Waker::from_raw(RawWaker::new(std::ptr::null(), &VT)) }
}

/// what the reference expects from a resolution attempt
#[derive(Debug, Clone, Copy, PartialEq)]
pub enum Expect {
    Ok,
    Err,
}

impl RefRt {
    pub fn new(u: &Universe, legacy_host: bool) -> Self {
        let mut w = World::default();
        w.new_group(None);
        w.programs = u.programs.clone();
        w.follow = u.follow;
        w.legacy_host = legacy_host;
        w.chans = (0..CHANS).map(|_| RefChan::default()).collect();
        RefRt { w: Arc::new(Mutex::new(w)), group: 0, legacy: false, sink: Sink::disabled(), enclosing: Arc::new(vec![]) }
    }
    /// Break the reference cycle world -> task futures -> runtime handle -> world. Must be called
    /// when a case is over; the futures are dropped outside the world lock (their guards lock it).
    /// mixed core: the programs whose bit is set run through the legacy API (if expressible there)
    pub fn with_legacy_mask(self, mask: u8) -> Self {
        self.w.lock().unwrap().legacy_mask = mask;
        self
    }
    /// commands returned by update so far, and whether the shell may spawn a further task on each
    pub fn late_spawn_targets(&self) -> Vec<bool> {
        self.w.lock().unwrap().hosted_spawnable.clone()
    }
    /// tasks of the legacy API that have not finished (the core's executor holds each of them)
    pub fn live_legacy_tasks(&self) -> usize {
        let w = self.w.lock().unwrap();
        w.tasks.iter().flatten().filter(|t| t.legacy).count()
    }
    pub fn dispose(&self) {
        loop {
            let (tasks, exports) = {
                let mut w = self.w.lock().unwrap();
                (std::mem::take(&mut w.tasks), std::mem::take(&mut w.exports))
            };
            if tasks.is_empty() && exports.is_empty() {
                break;
            }
            drop(tasks);
            drop(exports);
        }
    }

    pub fn world(&self) -> std::sync::MutexGuard<'_, World> {
        self.w.lock().unwrap()
    }
    fn child(&self, group: Gid) -> RefRt {
        RefRt { w: self.w.clone(), group, legacy: self.legacy, sink: self.sink.clone(), enclosing: self.enclosing.clone() }
    }
    fn internal(&self, fut: BoxFuture<'static, ()>) -> Tid {
        self.w.lock().unwrap().add_task(self.group, None, self.legacy, fut).0
    }
    fn visible(&self, path: Path, stmts: Vec<Stmt>) {
        let fut = task_root(self.clone(), self.sink.clone(), path.clone(), stmts);
        self.w.lock().unwrap().add_task(self.group, Some(path), self.legacy, fut);
    }
    fn wait_group(&self, g: Gid) -> BoxFuture<'static, ()> {
        let w = self.w.clone();
        futures::future::poll_fn(move |_| {
            let mut w = w.lock().unwrap();
            if w.done(g) {
                Poll::Ready(())
            } else {
                w.cur_wait.push(Src::Group(g));
                Poll::Pending
            }
        })
        .boxed()
    }

    /// the reference semantics of every command node
    pub fn launch(&self, c: &Cmd) -> Gid {
        let g = self.w.lock().unwrap().new_group(Some(self.group));
        let rt = self.child(g);
        let ev = |id: u16, seq: u16, o: &Out| Event::Tag { tag: id, from: vec![id, seq], val: o.digest() };
        match c.clone() {
            Cmd::Done => {}
            Cmd::Event(id) => {
                let r = rt.clone();
                rt.internal(async move { r.emit(Event::Tag { tag: id, from: vec![id, 0], val: 0 }) }.boxed());
            }
            Cmd::Notify(id) => {
                let r = rt.clone();
                rt.internal(async move { r.notify(Op::new(vec![id], NOTE)).await }.boxed());
            }
            Cmd::Req(id) | Cmd::ReqMap(id) => {
                let r = rt.clone();
                rt.internal(
                    async move {
                        let o = r.request(Op::new(vec![id, 0], REQ)).await;
                        r.emit(ev(id, 0, &o))
                    }
                    .boxed(),
                );
            }
            Cmd::Sub(id) => {
                let r = rt.clone();
                rt.internal(
                    async move {
                        let mut s = r.stream(Op::new(vec![id, 0], SUB));
                        let mut n = 0;
                        while let Some(o) = s.next().await {
                            r.emit(ev(id, n, &o));
                            n += 1;
                        }
                    }
                    .boxed(),
                );
            }
            Cmd::ChainRR(id) => {
                let r = rt.clone();
                rt.internal(
                    async move {
                        let _ = r.request(Op::new(vec![id, 0], REQ)).await;
                        let o = r.request(Op::new(vec![id, 1], REQ)).await;
                        r.emit(ev(id, 0, &o))
                    }
                    .boxed(),
                );
            }
            Cmd::ChainSR(id) => {
                // stream items are fed to the next stage one at a time, in order
                let r = rt.clone();
                rt.internal(
                    async move {
                        let mut s = r.stream(Op::new(vec![id, 0], SUB));
                        let mut k = 0u16;
                        while s.next().await.is_some() {
                            let o = r.request(Op::new(vec![id, 1, k], REQ)).await;
                            r.emit(ev(id, k, &o));
                            k += 1;
                        }
                    }
                    .boxed(),
                );
            }
            Cmd::ChainRS(id) => {
                let r = rt.clone();
                rt.internal(
                    async move {
                        let _ = r.request(Op::new(vec![id, 0], REQ)).await;
                        let mut s = r.stream(Op::new(vec![id, 1], SUB));
                        let mut n = 0;
                        while let Some(o) = s.next().await {
                            r.emit(ev(id, n, &o));
                            n += 1;
                        }
                    }
                    .boxed(),
                );
            }
            Cmd::ChainSS(id) | Cmd::ChainSRS(id) => {
                // every outer item opens an inner stream; inner streams run concurrently
                let with_request = matches!(c, Cmd::ChainSRS(_));
                let r = rt.clone();
                let seq = Arc::new(std::sync::atomic::AtomicU16::new(0));
                rt.internal(
                    async move {
                        let mut s = r.stream(Op::new(vec![id, 0], SUB));
                        let mut k = 0u16;
                        while s.next().await.is_some() {
                            let r2 = r.clone();
                            let kk = k;
                            k += 1;
                            let seq = seq.clone();
                            let t = r.internal(
                                async move {
                                    if with_request {
                                        let _ = r2.request(Op::new(vec![id, 1, kk], REQ)).await;
                                    }
                                    let mut i = r2.stream(Op::new(vec![id, if with_request { 2 } else { 1 }, kk], SUB));
                                    while let Some(o) = i.next().await {
                                        r2.emit(ev(id, seq.fetch_add(1, Ordering::SeqCst), &o));
                                    }
                                }
                                .boxed(),
                            );
                            if with_request {
                                if let Some(t) = r.w.lock().unwrap().tasks[t].as_mut() {
                                    t.retaining = true;
                                }
                            }
                        }
                    }
                    .boxed(),
                );
            }
            Cmd::Then(a, b) => {
                let r = rt.clone();
                rt.internal(
                    async move {
                        let ga = r.launch(&a);
                        r.wait_group(ga).await;
                        let gb = r.launch(&b);
                        r.wait_group(gb).await;
                    }
                    .boxed(),
                );
            }
            Cmd::And(a, b) => {
                rt.launch(&a);
                rt.launch(&b);
            }
            Cmd::All(cs) | Cmd::Collect(cs) => cs.iter().for_each(|c| {
                rt.launch(c);
            }),
            Cmd::MapEvent(id, c) => {
                self.w.lock().unwrap().groups[g].event_mark = Some(id);
                rt.launch(&c);
            }
            Cmd::MapEffect(id, c) => {
                self.w.lock().unwrap().groups[g].effect_mark = Some(id);
                rt.launch(&c);
            }
            Cmd::Async(id, task) => rt.visible(vec![id], task),
            Cmd::WithSpawn(id, c, task) => {
                rt.launch(&c);
                rt.visible(vec![id, 9999], task);
            }
            Cmd::Abortable(slot, c) => {
                let pre_aborted = {
                    let mut w = self.w.lock().unwrap();
                    w.slots.push((slot, g));
                    let pre = w.pre_aborted.contains(&slot);
                    if pre {
                        w.groups[g].aborted = true;
                    }
                    pre
                };
                // a command whose handle was used before it was started is cleared the moment it is
                // started: nothing of it ever runs (its parts are dropped unstarted)
                if !pre_aborted {
                    let mut rt = rt.clone();
                    let mut inner = (*rt.enclosing).clone();
                    inner.push(slot);
                    rt.enclosing = Arc::new(inner);
                    rt.launch(&c);
                }
            }
        }
        g
    }

    /// the legacy image of a program (see `legacy::run_program`)
    fn launch_legacy(&self, c: &Cmd) {
        match c {
            Cmd::Async(id, task) => {
                let g = self.w.lock().unwrap().new_group(Some(self.group));
                let mut rt = self.child(g);
                rt.legacy = true;
                rt.visible(vec![*id], task.clone());
            }
            Cmd::All(cs) | Cmd::Collect(cs) => cs.iter().for_each(|c| self.launch_legacy(c)),
            Cmd::And(a, b) => {
                self.launch_legacy(a);
                self.launch_legacy(b);
            }
            // the capability's `map_event`: every event of the tasks below passes through the map
            Cmd::MapEvent(id, c) => {
                let g = {
                    let mut w = self.w.lock().unwrap();
                    let g = w.new_group(Some(self.group));
                    w.groups[g].event_mark = Some(*id);
                    g
                };
                self.child(g).launch_legacy(c);
            }
            _ => {}
        }
    }

    // ---------------------------------------------------------------- predicates

    fn runnable(&self, i: Tid) -> bool {
        let w = self.w.lock().unwrap();
        match w.tasks[i].as_ref() {
            None => false,
            Some(t) => !t.polled_once || t.self_woken || t.waiting.iter().any(|s| w.changed(s)),
        }
    }
    fn dead(&self, i: Tid) -> bool {
        let w = self.w.lock().unwrap();
        match w.tasks[i].as_ref() {
            Some(t) => t.polled_once && !t.self_woken && !t.waiting.iter().any(|s| w.live(s) || w.changed(s)),
            None => false,
        }
    }
    fn shell_holds_any(&self, i: Tid) -> bool {
        let w = self.w.lock().unwrap();
        w.cells.iter().any(|c| c.owner == Some(i) && c.sent && c.op.kind != NOTE && !c.dropped && !(c.op.kind == REQ && c.resolved_once))
    }
    fn find(&self, p: &Path) -> Option<Tid> {
        let w = self.w.lock().unwrap();
        w.tasks.iter().position(|t| t.as_ref().map_or(false, |t| t.path.as_ref() == Some(p)))
    }

    // ---------------------------------------------------------------- steps

    fn poll_one(&self, i: Tid, cx: &mut Context<'_>) {
        let taken = {
            let mut w = self.w.lock().unwrap();
            w.cur_wait.clear();
            w.cur_selfwake = false;
            w.cur_task = Some(i);
            w.tasks[i].as_mut().and_then(|t| t.fut.take())
        };
        let Some(mut fut) = taken else { return };
        match fut.as_mut().poll(cx) {
            Poll::Ready(()) => {
                drop(fut);
                self.finish(i);
            }
            Poll::Pending => {
                let mut g = self.w.lock().unwrap();
                let w = &mut *g;
                let t = w.tasks[i].as_mut().unwrap();
                t.fut = Some(fut);
                t.waiting = std::mem::take(&mut w.cur_wait);
                t.self_woken = w.cur_selfwake;
                t.polled_once = true;
            }
        }
        self.w.lock().unwrap().cur_task = None;
    }
    fn finish(&self, i: Tid) {
        let wakers = {
            let mut w = self.w.lock().unwrap();
            match w.tasks[i].take() {
                Some(mut t) => {
                    t.finished.store(true, Ordering::SeqCst);
                    w.groups[t.group].live_tasks -= 1;
                    std::mem::take(&mut t.join_wakers)
                }
                None => vec![],
            }
        };
        for wk in wakers {
            wk.wake();
        }
    }
    fn discard(&self, i: Tid) {
        let fut = self.w.lock().unwrap().tasks[i].as_mut().and_then(|t| t.fut.take());
        drop(fut); // outside the lock: leaf destructors lock the world
        self.finish(i);
    }
    /// internal (untraceable) tasks are run eagerly and discarded when dead, to fixpoint
    fn housekeeping(&self, cx: &mut Context<'_>) {
        loop {
            let mut any = false;
            let n = self.w.lock().unwrap().tasks.len();
            for i in 0..n {
                let (internal, retaining) = {
                    let w = self.w.lock().unwrap();
                    match w.tasks[i].as_ref() {
                        Some(t) => (t.path.is_none() && !w.in_aborted(t.group), t.retaining && w.tolerate_retaining),
                        None => (false, false),
                    }
                };
                if !internal {
                    continue;
                }
                if self.runnable(i) {
                    self.poll_one(i, cx);
                    any = true;
                } else if self.dead(i) {
                    if retaining {
                        continue; // lingers, as the real runtime keeps it (known finding)
                    }
                    self.discard(i);
                    any = true;
                }
            }
            if !any {
                break;
            }
        }
    }

    /// A command aborted by one of its own tasks during this call has certainly been cleared once
    /// none of its visible tasks that ever ran is left: discard what remains of it (coordinators,
    /// parts that were launched here but never ran). Returns true if something was settled.
    fn settle_soft(&self) -> bool {
        let soft: Vec<Gid> = {
            let w = self.w.lock().unwrap();
            (0..w.groups.len()).filter(|&g| w.groups[g].soft).collect()
        };
        let mut any = false;
        for g in soft {
            let (blocked, victims): (bool, Vec<Tid>) = {
                let w = self.w.lock().unwrap();
                let inside: Vec<Tid> = (0..w.tasks.len()).filter(|&j| w.tasks[j].as_ref().map_or(false, |t| w.in_subtree(t.group, g))).collect();
                (inside.iter().any(|&j| w.tasks[j].as_ref().map_or(false, |t| t.path.is_some() && t.polled_once)), inside)
            };
            if blocked {
                continue;
            }
            for j in victims {
                self.discard(j);
            }
            let mut w = self.w.lock().unwrap();
            w.groups[g].soft = false;
            w.groups[g].aborted = true;
            any = true;
        }
        any
    }
    /// the call is over: every command one of its own tasks aborted during it has been cleared
    fn harden(&self) -> Result<(), String> {
        let soft: Vec<Gid> = {
            let w = self.w.lock().unwrap();
            (0..w.groups.len()).filter(|&g| w.groups[g].soft).collect()
        };
        for g in soft {
            let kept: Option<Path> = {
                let w = self.w.lock().unwrap();
                w.tasks.iter().flatten().find(|t| w.in_subtree(t.group, g) && t.path.is_some() && t.polled_once).and_then(|t| t.path.clone())
            };
            if let Some(q) = kept {
                return Err(format!("an aborted command was cleared but kept its task {q:?} (the command was aborted by one of its own tasks during this call)"));
            }
        }
        if self.settle_soft() {
            let waker = noop_waker();
            let mut cx = Context::from_waker(&waker);
            self.housekeeping(&mut cx);
        }
        Ok(())
    }

    /// Replay the witness of one call (or of one phase of overlapping calls). `Err` = the real
    /// runtime did something the reference semantics does not allow, or left an obligation open.
    pub fn replay(&self, trace: &[Tr]) -> Result<(), String> {
        let waker = noop_waker();
        let mut cx = Context::from_waker(&waker);
        self.housekeeping(&mut cx);
        let mut k = 0;
        while k < trace.len() {
            match &trace[k] {
                Tr::Polled(p) => {
                    if self.find(p).is_none() && self.settle_soft() {
                        self.housekeeping(&mut cx);
                    }
                    let Some(i) = self.find(p) else { return Err(format!("the real runtime polled task {p:?}, which the reference does not have (never spawned, finished, or discarded)")) };
                    {
                        let w = self.w.lock().unwrap();
                        let t = w.tasks[i].as_ref().unwrap();
                        if t.aborted.load(Ordering::SeqCst) {
                            return Err(format!("cancelled work was polled: task {p:?} had been aborted through its join handle"));
                        }
                        if w.in_aborted(t.group) {
                            return Err(format!("cancelled work was polled: task {p:?} belongs to an aborted command"));
                        }
                    }
                    if !self.runnable(i) {
                        self.w.lock().unwrap().spurious_polls += 1;
                    }
                    self.poll_one(i, &mut cx);
                    let finished = self.find(p).is_none();
                    let real_done = trace.get(k + 1) == Some(&Tr::Done(p.clone()));
                    if finished != real_done {
                        return Err(format!("task {p:?}: the reference {} after this poll, the real task {}", if finished { "finished" } else { "is still pending" }, if real_done { "finished" } else { "is still pending" }));
                    }
                    if real_done {
                        k += 1;
                    }
                }
                Tr::Done(p) => return Err(format!("task {p:?} finished without a poll")),
                Tr::DroppedUnstarted(p) if self.find(p).is_none() && !self.w.lock().unwrap().pre_dropped.contains(p) => {
                    // a part that was built but never launched was dropped with its owner
                }
                Tr::Dropped(p) | Tr::DroppedUnstarted(p) => {
                    let pre = {
                        let mut w = self.w.lock().unwrap();
                        match w.pre_dropped.iter().position(|q| q == p) {
                            Some(ix) => {
                                w.pre_dropped.remove(ix);
                                true
                            }
                            None => false,
                        }
                    };
                    if !pre {
                        if self.find(p).is_none() && self.settle_soft() {
                            self.housekeeping(&mut cx);
                            if matches!(&trace[k], Tr::DroppedUnstarted(_)) && self.find(p).is_none() {
                                k += 1;
                                continue;
                            }
                        }
                        let Some(i) = self.find(p) else { return Err(format!("the real runtime dropped task {p:?}, which the reference does not have")) };
                        let (aborted, legacy, chain) = {
                            let w = self.w.lock().unwrap();
                            let t = w.tasks[i].as_ref().unwrap();
                            (t.aborted.load(Ordering::SeqCst) || w.in_soft(t.group), t.legacy, w.aborted_ancestors(t.group))
                        };
                        if !chain.is_empty() {
                            // which aborted command was cleared? the largest whose visible tasks are all dropped in the rest of this call
                            let g = {
                                let w = self.w.lock().unwrap();
                                let rest: Vec<&Path> = trace[k..].iter().filter_map(|t| match t { Tr::Dropped(q) | Tr::DroppedUnstarted(q) => Some(q), _ => None }).collect();
                                chain.iter().rev().copied().find(|&cand| w.tasks.iter().flatten().filter(|t| w.in_subtree(t.group, cand)).all(|t| t.path.as_ref().map_or(true, |q| rest.contains(&q)))).unwrap_or(chain[0])
                            };
                            let victims: Vec<Tid> = {
                                let w = self.w.lock().unwrap();
                                (0..w.tasks.len()).filter(|&j| w.tasks[j].as_ref().map_or(false, |t| w.in_subtree(t.group, g))).collect()
                            };
                            for j in victims {
                                let path = self.w.lock().unwrap().tasks[j].as_ref().and_then(|t| t.path.clone());
                                if j != i {
                                    if let Some(q) = path {
                                        self.w.lock().unwrap().pre_dropped.push(q);
                                    }
                                }
                                self.discard(j);
                            }
                        } else if legacy {
                            return Err(format!("a legacy task {p:?} was dropped while its core is alive"));
                        } else {
                            let runnable = self.runnable(i);
                            if !(aborted || (!runnable && self.dead(i))) {
                                return Err(format!("a task something can still wake was discarded: {p:?} (runnable={runnable})"));
                            }
                            self.discard(i);
                        }
                    }
                }
                Tr::Update(e) => {
                    let launch = {
                        let mut g = self.w.lock().unwrap();
                        let w = &mut *g;
                        let prog = match e {
                            Event::Start { prog, .. } => Some(*prog),
                            Event::Noop | Event::Text(_) => None,
                            e => {
                                let Some(ix) = w.pending.iter().position(|q| q == e) else { return Err(format!("update applied {e:?}, which is not pending (never emitted, or applied twice)")) };
                                if let Some((em, _)) = e.emitter() {
                                    if w.pending[..ix].iter().any(|q| q.emitter().map(|x| x.0) == Some(em)) {
                                        return Err(format!("update applied {e:?} before an earlier event of the same emitter"));
                                    }
                                }
                                w.pending.remove(ix);
                                let p = follow_up(w.follow, e, w.follow_ups);
                                if p.is_some() {
                                    w.follow_ups += 1;
                                }
                                p
                            }
                        };
                        w.applied.push(e.clone());
                        prog.and_then(|p| {
                            let c = instantiate(&w.programs, p, w.instances);
                            w.instances += 1;
                            c.map(|c| (p, c))
                        })
                    };
                    if let Some((p, c)) = launch {
                        collect_slots(&c, &mut self.w.lock().unwrap().known_slots);
                        let root = self.child(0);
                        let (legacy_host, mask) = {
                            let w = self.w.lock().unwrap();
                            (w.legacy_host, w.legacy_mask)
                        };
                        if legacy_host || crate::app::through_legacy_api(mask, p, &c) {
                            root.launch_legacy(&c);
                        } else {
                            let outer = self.w.lock().unwrap().new_group(Some(0));
                            self.child(outer).launch(&c);
                            let mut w = self.w.lock().unwrap();
                            w.hosted.push(outer);
                            w.hosted_spawnable.push(!matches!(c, Cmd::Abortable(..)));
                        }
                    }
                }
                Tr::Resolve(path, out) => {
                    let mut w = self.w.lock().unwrap();
                    let Some(c) = w.cell_by_path(path) else { return Err(format!("resolution of {path:?}, a request the reference never issued")) };
                    let accept = match c.op.kind {
                        REQ => !c.resolved_once,
                        SUB => true,
                        _ => false,
                    };
                    let told_ok = match c.op.kind {
                        REQ => !c.resolved_once,
                        SUB => !c.consumer_gone,
                        _ => false,
                    };
                    let nonce = out.nonce;
                    if accept {
                        if !c.consumer_gone {
                            c.queue.push_back(out.clone());
                        }
                        c.resolved_once = true;
                        c.version += 1;
                    }
                    // (a future that no longer exists is not woken: its channel / its shared state is gone)
                    let wake = if accept && !c.consumer_gone { c.waker.take() } else { None };
                    w.resolve_log.push((nonce, told_ok));
                    drop(w);
                    if let Some(wk) = wake {
                        wk.wake();
                    }
                }
                Tr::DropReq(path) => {
                    let mut w = self.w.lock().unwrap();
                    let Some(c) = w.cell_by_path(path) else { return Err(format!("drop of {path:?}, a request the reference never issued")) };
                    c.dropped = true;
                    let mut wake = None;
                    if !c.legacy {
                        c.version += 1; // in the legacy API dropping a request wakes nobody
                        if !c.consumer_gone {
                            wake = c.waker.take();
                        }
                    }
                    drop(w);
                    if let Some(wk) = wake {
                        wk.wake();
                    }
                }
                Tr::AbortGroup(slot) => self.w.lock().unwrap().abort_slot(*slot, false),
                Tr::LateSpawn(ix, path, stmts) => {
                    let g = self.w.lock().unwrap().hosted.get(*ix).copied();
                    let Some(g) = g else { return Err(format!("driver error: late spawn on command {ix}, which the reference does not have")) };
                    self.child(g).visible(path.clone(), stmts.clone());
                }
                Tr::AbortTask(key) => {
                    let hs: Vec<JoinH> = self.w.lock().unwrap().exports.iter().filter(|(k, _)| k == key).map(|(_, h)| h.clone()).collect();
                    for h in hs {
                        (h.abort)();
                    }
                }
                // leaf-level events are for the trace invariants, not for the replay
                Tr::FirstPoll(_) | Tr::Got(..) | Tr::Item(..) | Tr::StreamEnd(_) | Tr::LeafDropped(_) | Tr::Emit(..) | Tr::GuardDropped(_) => {}
            }
            self.housekeeping(&mut cx);
            k += 1;
        }
        Ok(())
    }

    /// the obligations at the end of a call (end of a phase for overlapping calls)
    pub fn obligations(&self) -> Result<(), String> {
        self.harden()?;
        if let Some(q) = self.w.lock().unwrap().pre_dropped.first().cloned() {
            return Err(format!("an aborted command was cleared but kept its task {q:?}"));
        }
        let n = self.w.lock().unwrap().tasks.len();
        for i in 0..n {
            let info = {
                let w = self.w.lock().unwrap();
                w.tasks[i].as_ref().map(|t| (t.path.clone(), t.aborted.load(Ordering::SeqCst), w.in_aborted(t.group), t.legacy, t.retaining))
            };
            let Some((path, aborted, in_aborted, legacy, retaining)) = info else { continue };
            if path.is_none() && in_aborted {
                continue; // internal tasks of an aborted command are invisible: neither run nor checked
            }
            if self.runnable(i) {
                return Err(format!("runnable work left behind when the call returned: task {path:?}{}", if aborted || in_aborted { " (cancelled, should have been discarded)" } else { "" }));
            }
            if !aborted && !in_aborted && legacy && self.dead(i) && !self.shell_holds_any(i) {
                // the legacy executor never discards a task: one whose request the shell dropped stays for ever
                if self.w.lock().unwrap().tolerate_legacy_kept {
                    self.w.lock().unwrap().used_legacy_exemption += 1;
                    continue;
                }
                return Err(format!("a task nothing can wake any more was kept: {path:?} [legacy capability API: the request it waits for was dropped]"));
            }
            if !aborted && !in_aborted && !legacy && self.dead(i) && !self.shell_holds_any(i) {
                if retaining && self.w.lock().unwrap().tolerate_retaining {
                    self.w.lock().unwrap().used_retaining_exemption += 1;
                    continue;
                }
                return Err(format!("a task nothing can wake any more was kept: {path:?}{}", if retaining { " [inside a waker-retaining construct]" } else { "" }));
            }
        }
        Ok(())
    }

    // ---------------------------------------------------------------- queries for the shell driver

    pub fn take_outputs(&self) -> (Vec<Op>, Vec<Event>) {
        let mut w = self.w.lock().unwrap();
        (std::mem::take(&mut w.effects), std::mem::take(&mut w.events))
    }
    /// values the reference's leaves handed to their tasks since the last call of this function
    pub fn take_delivered(&self) -> Vec<(Path, u32)> {
        std::mem::take(&mut self.w.lock().unwrap().delivered)
    }
    pub fn root_done(&self) -> bool {
        let w = self.w.lock().unwrap();
        w.done(0)
    }
    /// commands returned by update that are not finished (each is hosted by one executor task)
    pub fn live_hosted_commands(&self) -> usize {
        let w = self.w.lock().unwrap();
        w.hosted.iter().filter(|g| !w.done(**g)).count()
    }
    /// is this stream's consumer gone (the request can no longer be resolved)?
    pub fn stream_ended(&self, path: &Path) -> bool {
        let mut w = self.w.lock().unwrap();
        w.cell_by_path(path).map_or(false, |c| c.consumer_gone)
    }
    pub fn live_visible_tasks(&self) -> usize {
        self.w.lock().unwrap().tasks.iter().flatten().filter(|t| t.path.is_some()).count()
    }
    pub fn expect_resolve(&self, path: &Path) -> Option<Expect> {
        let mut w = self.w.lock().unwrap();
        let c = w.cell_by_path(path)?;
        Some(match c.op.kind {
            REQ => {
                if c.resolved_once {
                    Expect::Err
                } else {
                    Expect::Ok
                }
            }
            SUB => {
                if c.consumer_gone {
                    Expect::Err
                } else {
                    Expect::Ok
                }
            }
            _ => Expect::Err,
        })
    }
    /// does this request belong to work that has been cancelled (its future dropped, its task or
    /// command aborted, or the request itself dropped)?
    pub fn is_cancelled_target(&self, path: &Path) -> bool {
        let mut w = self.w.lock().unwrap();
        let Some(c) = w.cell_by_path(path) else { return false };
        if c.consumer_gone || c.dropped {
            return true;
        }
        let owner = c.owner;
        match owner.and_then(|t| w.tasks[t].as_ref()) {
            Some(t) => t.aborted.load(Ordering::SeqCst) || w.in_aborted(t.group),
            None => owner.is_some(), // the owning task is gone
        }
    }
    /// is the request awaited by a task the witness can see (not by the invisible task of an opaque
    /// builder chain, whose eviction leaves no trace)?
    pub fn owner_is_visible(&self, path: &Path) -> bool {
        let mut w = self.w.lock().unwrap();
        let owner = w.cell_by_path(path).and_then(|c| c.owner);
        owner.map_or(false, |t| w.tasks.get(t).and_then(|t| t.as_ref()).map_or(false, |t| t.path.is_some()))
    }
    pub fn consumer_alive(&self, path: &Path) -> bool {
        let mut w = self.w.lock().unwrap();
        w.cell_by_path(path).map_or(false, |c| !c.consumer_gone)
    }
    /// slots of `Abortable` commands that are neither aborted nor finished (commands that have not
    /// been started yet - the second part of a `then` - included: their handles exist already)
    pub fn abortable_slots(&self) -> Vec<u16> {
        let w = self.w.lock().unwrap();
        let mut v: Vec<u16> = w
            .known_slots
            .iter()
            .copied()
            .filter(|s| !w.pre_aborted.contains(s))
            .filter(|s| {
                let mut launched = w.slots.iter().filter(|(t, _)| t == s).peekable();
                launched.peek().is_none() || launched.all(|(_, g)| !w.groups[*g].aborted && !w.done(*g))
            })
            .collect();
        v.sort();
        v.dedup();
        v
    }
    /// was this slot's handle used before its command was launched, or is it not launched yet?
    pub fn slot_unlaunched(&self, slot: u16) -> bool {
        let w = self.w.lock().unwrap();
        !w.slots.iter().any(|(s, _)| *s == slot)
    }
    pub fn exported_keys(&self) -> Vec<Path> {
        let w = self.w.lock().unwrap();
        let mut v: Vec<Path> = w.exports.iter().map(|(k, _)| k.clone()).collect();
        v.sort();
        v.dedup();
        v
    }
}
