//! L1 — model-free invariants over the instrumentation trace of one call (DESIGN §4.5). They
//! relate what the generated program *did* to what the shell *saw* and need no reference semantics.

use crate::app::UniCtx;
use crate::shell::Obs;
use crate::trace::Tr;
use std::collections::BTreeSet;

pub fn check_call(trace: &[Tr], obs: &Obs, _uni: &UniCtx) -> Result<(), String> {
    // W (window): every traced leaf first polled during this call has its effect in the call's
    // return value, and nothing is returned twice.
    let mut returned = BTreeSet::new();
    for op in &obs.effects {
        if !returned.insert(op.path.clone()) {
            return Err(format!("effect {:?} was returned twice by one call", op.path));
        }
    }
    for t in trace {
        if let Tr::FirstPoll(p) = t {
            if !returned.contains(p) {
                return Err(format!("request {p:?} was issued by a task during this call but is not in the call's return value"));
            }
        }
    }
    // D (delivery): a value delivered during this call was resolved during this call or earlier
    // (checked against the stamped resolutions of this window only: at most one resolution per call)
    let resolved: Vec<(&Vec<u16>, u32)> = trace.iter().filter_map(|t| if let Tr::Resolve(p, o) = t { Some((p, o.nonce)) } else { None }).collect();
    for t in trace {
        if let Tr::Got(p, n) = t {
            if let Some((rp, rn)) = resolved.first() {
                if *rp == p && rn != n {
                    return Err(format!("request {p:?} was resolved with nonce {rn} but the task received {n}"));
                }
            }
        }
    }
    Ok(())
}
