//! L1 — model-free invariants over the instrumentation trace (DESIGN §4.5). They relate what the
//! generated program *did* (recorded by the wrappers around its futures and by the test app's
//! `update`) to what the shell *did and saw*; no reference semantics is involved, so a failure
//! here can never be blamed on the reference runtime.
//!
//! State is kept across the calls of one case (one `L1` per case).

use crate::dsl::{Event, Out, REQ};
use crate::shell::Obs;
use crate::trace::{Path, Tr};
use std::collections::{BTreeMap, BTreeSet};

#[derive(Default)]
pub struct L1 {
    /// every request path ever returned to the shell
    returned_ever: BTreeSet<Path>,
    /// resolutions the core accepted, per request, in order
    accepted: BTreeMap<Path, Vec<u32>>,
    /// values the program received, per traced leaf, in order
    delivered: BTreeMap<Path, Vec<u32>>,
    /// kind of every returned request
    kind: BTreeMap<Path, u8>,
    /// leaves created by the interpreter (their polls and deliveries are visible in the trace)
    pub traced_leaves: BTreeSet<Path>,
    /// next sequence number expected from each emitter
    next_seq: BTreeMap<Vec<u16>, u16>,
    /// every event `update` was given, in order
    pub updates: Vec<Event>,
}

impl L1 {
    /// `Got`/`Item` of this call as (path, nonce)
    pub fn deliveries_of(trace: &[Tr]) -> Vec<(Path, u32)> {
        trace.iter().filter_map(|t| match t { Tr::Got(p, n, _) | Tr::Item(p, n, _) => Some((p.clone(), *n)), _ => None }).collect()
    }

    /// Check one call; returns every clause that failed (in order).
    pub fn check_call(&mut self, trace: &[Tr], obs: &Obs) -> Vec<String> {
        let mut fails = vec![];
        // ---- W (window): nothing is returned twice, neither by one call nor over the history;
        // every traced leaf first polled during this call has its effect in this call's return value.
        let mut returned = BTreeSet::new();
        for op in &obs.effects {
            if !returned.insert(op.path.clone()) {
                fails.push(format!("effect {:?} was returned twice by one call", op.path));
            } else if self.returned_ever.contains(&op.path) {
                fails.push(format!("effect {:?} was returned twice by one call or by two calls: it had already been handed to the shell by an earlier call", op.path));
            }
            self.kind.insert(op.path.clone(), op.kind);
        }
        for t in trace {
            if let Tr::FirstPoll(p) = t {
                self.traced_leaves.insert(p.clone());
                if !returned.contains(p) {
                    fails.push(format!("request {p:?} was issued by a task during this call but is not in the call's return value"));
                }
            }
        }
        self.returned_ever.extend(returned);

        // ---- D (delivery): what a task receives is what the shell passed to *that* request:
        // accepted, unchanged, at most once (one-shot) / in order without gaps or repeats (stream).
        for t in trace {
            if let Tr::Resolve(p, o) = t {
                if obs.resolve_ok == Some(true) {
                    self.accepted.entry(p.clone()).or_default().push(o.nonce);
                }
            }
        }
        for t in trace {
            let (p, n, digest, what) = match t {
                Tr::Got(p, n, d) => (p, *n, *d, "response"),
                Tr::Item(p, n, d) => (p, *n, *d, "stream item"),
                _ => continue,
            };
            let got = self.delivered.entry(p.clone()).or_default();
            let acc = self.accepted.get(p).map(|v| v.as_slice()).unwrap_or(&[]);
            match acc.get(got.len()) {
                Some(want) if *want == n => {}
                Some(want) => {
                    if acc.contains(&n) {
                        fails.push(format!("request {p:?}: the shell's resolutions were {acc:?} but the task received {what} {n} out of order or twice (after {got:?}; next expected {want})"));
                    } else {
                        fails.push(format!("request {p:?} was resolved with {acc:?} but the task received {what} {n}, which the shell never passed to this request"));
                    }
                }
                None => {
                    fails.push(format!("request {p:?} was resolved with {acc:?} but the task received {what} {n} after {got:?} (more values than accepted resolutions)"));
                }
            }
            if self.kind.get(p) == Some(&REQ) && !got.is_empty() {
                fails.push(format!("one-shot request {p:?}: a second value ({n}) was delivered but the task received it after {got:?}"));
            }
            got.push(n);
            if digest != Out::new(n).digest() {
                fails.push(format!("request {p:?} was resolved with nonce {n} but the task received different payload bytes (digest {digest:#x})"));
            }
        }

        // ---- E (events): every event reaches `update` exactly once, per emitter in emission order,
        // and everything emitted during this call was applied before it returned.
        let mut applied_now: BTreeSet<Vec<u16>> = BTreeSet::new();
        for t in trace {
            if let Tr::Update(e) = t {
                self.updates.push(e.clone());
                if let Event::Tag { from, .. } = e.innermost() {
                    applied_now.insert(from.clone());
                    if let Some((emitter, seq)) = e.emitter() {
                        let next = self.next_seq.entry(emitter.to_vec()).or_insert(0);
                        if seq < *next {
                            fails.push(format!("update applied {e:?}, which is not pending (it had already been applied: event {seq} of emitter {emitter:?} twice)"));
                        } else if seq > *next {
                            fails.push(format!("update applied {e:?} before an earlier event of the same emitter (event {} of {emitter:?} has not been applied)", *next));
                            *next = seq + 1;
                        } else {
                            *next = seq + 1;
                        }
                    }
                }
            }
        }
        for t in trace {
            if let Tr::Emit(from, _) = t {
                if !applied_now.contains(from) {
                    fails.push(format!("events were emitted but not applied when the call returned: {from:?} (emitter + sequence number)"));
                }
            }
        }
        fails
    }

    /// the view after a call is the log of exactly the events `update` was given, in that order
    pub fn check_view(&self, view: &[Event]) -> Option<String> {
        if view != self.updates.as_slice() {
            return Some(format!("the view shows {} events {:?}, update was given {} events {:?}", view.len(), tail(view), self.updates.len(), tail(&self.updates)));
        }
        None
    }
}

fn tail(v: &[Event]) -> &[Event] {
    &v[v.len().saturating_sub(4)..]
}
