//! The instrumentation trace. It is written by the *generated program* (wrappers around the
//! futures the interpreter creates, the test app's `update`) and by the shell driver — never by
//! crux. One sink per case; the reference runtime replays with a disabled sink.

use crate::dsl::{Event, Out};
use std::sync::{Arc, Mutex};

pub type Path = Vec<u16>;

#[derive(Debug, Clone, PartialEq)]
pub enum Tr {
    // ---- the witness (DESIGN §4.4)
    Polled(Path),
    Done(Path),
    Dropped(Path),
    DroppedUnstarted(Path),
    Update(Event),
    /// shell actions, stamped by the driver at the moment they take effect
    Resolve(Path, Out),
    DropReq(Path),
    AbortGroup(u16),
    AbortTask(Path),
    /// the shell spawned a further task (path, body) on the n-th command returned by update
    LateSpawn(usize, Path, Vec<crate::dsl::Stmt>),
    // ---- leaf level (L1 invariants)
    FirstPoll(Path),
    /// (leaf, nonce, digest of the whole value received)
    Got(Path, u32, u32),
    Item(Path, u32, u32),
    StreamEnd(Path),
    LeafDropped(Path),
    Emit(Path, u16),
    GuardDropped(u32),
}

pub struct Sink {
    enabled: bool,
    events: Mutex<Vec<Tr>>,
    /// task root futures created by the generated program that still exist / have not finished
    /// (C13: a finished task's future must not be kept)
    pub wrappers_alive: std::sync::atomic::AtomicI64,
    pub wrappers_unfinished: std::sync::atomic::AtomicI64,
}

impl Sink {
    pub fn new() -> Arc<Sink> {
        Arc::new(Sink { enabled: true, events: Mutex::new(Vec::new()), wrappers_alive: Default::default(), wrappers_unfinished: Default::default() })
    }
    /// the sink used by the reference runtime's own replay: records nothing
    pub fn disabled() -> Arc<Sink> {
        Arc::new(Sink { enabled: false, events: Mutex::new(Vec::new()), wrappers_alive: Default::default(), wrappers_unfinished: Default::default() })
    }
    pub fn push(&self, t: Tr) {
        if self.enabled {
            self.events.lock().unwrap().push(t);
        }
    }
    pub fn len(&self) -> usize {
        self.events.lock().unwrap().len()
    }
    pub fn take(&self) -> Vec<Tr> {
        std::mem::take(&mut *self.events.lock().unwrap())
    }
}

thread_local! {
    /// > 0 while a traced task poll is in progress on this thread (C08: such polls are atomic schedule steps)
    pub static IN_POLL: std::cell::Cell<u32> = const { std::cell::Cell::new(0) };
}

pub fn witness_only(trace: &[Tr]) -> Vec<Tr> {
    trace
        .iter()
        .filter(|t| matches!(t, Tr::Polled(_) | Tr::Done(_) | Tr::Dropped(_) | Tr::DroppedUnstarted(_) | Tr::Update(_) | Tr::Resolve(..) | Tr::DropReq(_) | Tr::AbortGroup(_) | Tr::AbortTask(_) | Tr::LateSpawn(..)))
        .cloned()
        .collect()
}
