//! Hosts (where the program runs) and the shell driver that executes a generated schedule against
//! a host and the reference in lock step.

use crate::app::{apply_event, App, Effect, EffectFfi, Model, UniCtx};
use crate::cruxrt::{compile, C};
use crate::dsl::*;
use crate::refrt::{Expect, RefRt};
use crate::trace::{witness_only, Path, Sink, Tr};
use bincode::Options;
use crux_core::bridge::{Bridge, BridgeWithSerializer, Request as BridgeRequest};
use crux_core::{Core, Request};
use serde::{Deserialize, Serialize};
use std::collections::{BTreeMap, VecDeque};
use std::sync::Arc;

#[derive(Debug, Clone, Copy, PartialEq, Eq, Hash, Serialize, Deserialize)]
pub enum HostKind {
    /// the `Command` itself, inspected with `effects()/events()/is_done()`; events fed back by hand
    Direct,
    /// the `Command` polled as a `Stream` by a minimal executor of the harness that polls a command
    /// only after its waker was used (manual stream polling: isolates the parent-wake path)
    Stream,
    /// `Core<App>` through `process_event` / `resolve`
    Core,
    /// `Core<App>`, programs run through the legacy capability API
    Legacy,
    BridgeBincode,
    BridgeJson,
}

/// what one shell action made observable
#[derive(Debug, Default)]
pub struct Obs {
    pub effects: Vec<Op>,
    /// result of the resolution attempt, if the action was one
    pub resolve_ok: Option<bool>,
}

fn bincode_opts() -> impl bincode::Options + Copy {
    bincode::DefaultOptions::new().with_fixint_encoding().allow_trailing_bytes()
}

pub(crate) enum Byte {
    Bin(Bridge<App>),
    Json(BridgeWithSerializer<App>),
}

impl Byte {
    pub(crate) fn decode(&self, bytes: &[u8]) -> Result<Vec<BridgeRequest<EffectFfi>>, String> {
        match self {
            Byte::Bin(_) => bincode_opts().deserialize(bytes).map_err(|e| format!("returned requests do not decode: {e}")),
            Byte::Json(_) => serde_json::from_slice(bytes).map_err(|e| format!("returned requests do not decode: {e}")),
        }
    }
    pub(crate) fn event(&self, e: &Event) -> Result<Vec<BridgeRequest<EffectFfi>>, String> {
        match self {
            Byte::Bin(b) => self.decode(&b.process_event(&bincode_opts().serialize(e).unwrap()).map_err(|e| e.to_string())?),
            Byte::Json(b) => {
                let inp = serde_json::to_vec(e).unwrap();
                let mut out = vec![];
                b.process_event(&mut serde_json::Deserializer::from_slice(&inp), &mut serde_json::Serializer::new(&mut out)).map_err(|e| e.to_string())?;
                self.decode(&out)
            }
        }
    }
    pub(crate) fn respond(&self, id: u32, v: &Out) -> Result<Result<Vec<BridgeRequest<EffectFfi>>, String>, String> {
        let raw = match self {
            Byte::Bin(b) => b.handle_response(id, &bincode_opts().serialize(v).unwrap()).map_err(|e| e.to_string()),
            Byte::Json(b) => {
                let inp = serde_json::to_vec(v).unwrap();
                let mut out = vec![];
                b.handle_response(id, &mut serde_json::Deserializer::from_slice(&inp), &mut serde_json::Serializer::new(&mut out)).map(|_| out).map_err(|e| e.to_string())
            }
        };
        match raw {
            Err(e) => Ok(Err(e)),
            Ok(bytes) => Ok(Ok(self.decode(&bytes)?)),
        }
    }
    /// raw entry points (C12): Ok(Err(_)) = the bridge rejected the input
    pub(crate) fn event_bytes(&self, bytes: &[u8]) -> Result<Result<Vec<BridgeRequest<EffectFfi>>, String>, String> {
        let raw = match self {
            Byte::Bin(b) => b.process_event(bytes).map_err(|e| e.to_string()),
            Byte::Json(b) => {
                let mut out = vec![];
                b.process_event(&mut serde_json::Deserializer::from_slice(bytes), &mut serde_json::Serializer::new(&mut out)).map(|_| out).map_err(|e| e.to_string())
            }
        };
        match raw {
            Err(e) => Ok(Err(e)),
            Ok(bytes) => Ok(Ok(self.decode(&bytes)?)),
        }
    }
    pub(crate) fn respond_bytes(&self, id: u32, bytes: &[u8]) -> Result<Result<Vec<BridgeRequest<EffectFfi>>, String>, String> {
        let raw = match self {
            Byte::Bin(b) => b.handle_response(id, bytes).map_err(|e| e.to_string()),
            Byte::Json(b) => {
                let mut out = vec![];
                b.handle_response(id, &mut serde_json::Deserializer::from_slice(bytes), &mut serde_json::Serializer::new(&mut out)).map(|_| out).map_err(|e| e.to_string())
            }
        };
        match raw {
            Err(e) => Ok(Err(e)),
            Ok(bytes) => Ok(Ok(self.decode(&bytes)?)),
        }
    }
    pub(crate) fn view(&self) -> Result<Vec<Event>, String> {
        match self {
            Byte::Bin(b) => bincode_opts().deserialize(&b.view().map_err(|e| e.to_string())?).map_err(|e| format!("view does not decode: {e}")),
            Byte::Json(b) => {
                let mut out = vec![];
                b.view(&mut serde_json::Serializer::new(&mut out)).map_err(|e| e.to_string())?;
                serde_json::from_slice(&out).map_err(|e| format!("view does not decode: {e}"))
            }
        }
    }
}

/// the waker handed to a manually polled command: remembers that it was used
struct Flag(std::sync::atomic::AtomicBool);
impl std::task::Wake for Flag {
    fn wake(self: Arc<Self>) {
        self.0.store(true, std::sync::atomic::Ordering::SeqCst);
    }
    fn wake_by_ref(self: &Arc<Self>) {
        self.0.store(true, std::sync::atomic::Ordering::SeqCst);
    }
}

enum Inner {
    Direct { roots: Vec<C>, model: Model, queue: VecDeque<Event> },
    Streamed { roots: Vec<(Option<C>, Arc<Flag>)>, model: Model, queue: VecDeque<Event>, wakes: u64, polls: u64 },
    Typed(Core<App>),
    Byte(Byte),
}

pub struct Host {
    pub kind: HostKind,
    pub uni: Arc<UniCtx>,
    inner: Inner,
    /// typed hosts keep the request objects; byte hosts keep (id, op)
    typed: BTreeMap<Path, Request<Op>>,
    ids: BTreeMap<Path, u32>,
    /// ids currently outstanding at a byte host (one-shots not yet answered, streams)
    pub outstanding_ids: Vec<u32>,
    pub max_id: u32,
    pub id_reused_after_release: bool,
    released: Vec<u32>,
    /// byte hosts: the request that was last given each id, and its kind
    owner: BTreeMap<u32, Path>,
    owner_kind: BTreeMap<u32, u8>,
    /// direct host: an inspection (`effects()` / `events()` / `is_done()`) returned while the command
    /// still had runnable work - found by inspecting it again at once (see `settle_direct`)
    pub unsettled: Option<String>,
}

impl Host {
    pub fn new(kind: HostKind, uni: Arc<UniCtx>) -> Self {
        let inner = match kind {
            HostKind::Direct => Inner::Direct { roots: vec![], model: Model::default(), queue: VecDeque::new() },
            HostKind::Stream => Inner::Streamed { roots: vec![], model: Model::default(), queue: VecDeque::new(), wakes: 0, polls: 0 },
            HostKind::Core | HostKind::Legacy => Inner::Typed(Core::new()),
            HostKind::BridgeBincode => Inner::Byte(Byte::Bin(Bridge::new(Core::new()))),
            HostKind::BridgeJson => Inner::Byte(Byte::Json(BridgeWithSerializer::new(Core::new()))),
        };
        Host { kind, uni, inner, typed: BTreeMap::new(), ids: BTreeMap::new(), outstanding_ids: vec![], max_id: 0, id_reused_after_release: false, released: vec![], owner: BTreeMap::new(), owner_kind: BTreeMap::new(), unsettled: None }
    }

    pub fn can_drop(&self) -> bool {
        !matches!(self.inner, Inner::Byte(_))
    }

    /// byte hosts: does the id this request was given still name this request (and not a later one)?
    pub fn id_still_names(&self, path: &Path) -> bool {
        match self.ids.get(path) {
            Some(id) => self.owner.get(id) == Some(path),
            None => false,
        }
    }

    fn absorb_typed(&mut self, effects: Vec<Effect>) -> Vec<Op> {
        let mut ops = vec![];
        for e in effects {
            if let Effect::Sim(r) = e {
                ops.push(r.operation.clone());
                if r.operation.kind != NOTE {
                    self.typed.insert(r.operation.path.clone(), r);
                } else {
                    self.typed.insert(r.operation.path.clone(), r); // notifications can be "resolved again" too
                }
            }
        }
        ops
    }

    fn absorb_bytes(&mut self, reqs: Vec<BridgeRequest<EffectFfi>>) -> Result<Vec<Op>, String> {
        let mut ops = vec![];
        for q in reqs {
            let id = q.id.0;
            if let EffectFfi::Sim(op) = q.effect {
                if self.outstanding_ids.contains(&id) {
                    return Err(format!("the bridge handed out id {id} while a request with that id is still outstanding"));
                }
                if self.released.contains(&id) {
                    self.id_reused_after_release = true;
                }
                self.max_id = self.max_id.max(id);
                if op.kind != NOTE {
                    self.outstanding_ids.push(id);
                }
                self.ids.insert(op.path.clone(), id);
                self.owner.insert(id, op.path.clone());
                self.owner_kind.insert(id, op.kind);
                ops.push(op);
            }
        }
        Ok(ops)
    }

    /// direct host: run all root commands and feed emitted events back through `update`, FIFO
    fn settle_direct(&mut self) -> Vec<Op> {
        let mut all = vec![];
        loop {
            let mut progressed = false;
            let Inner::Direct { roots, model, queue } = &mut self.inner else { unreachable!() };
            let mut effects = vec![];
            let mut unsettled: Option<String> = None;
            // a task of one command may wake a task of another (task-to-task channels): a pass during
            // which any traced task ran is followed by another one
            let before = self.uni.sink.len();
            for c in roots.iter_mut() {
                // however a command is inspected, it yields the same outputs
                match self.uni.inspect % 5 {
                    0 => {
                        effects.extend(c.effects());
                        queue.extend(c.events());
                    }
                    1 => {
                        queue.extend(c.events());
                        effects.extend(c.effects());
                    }
                    2 => {
                        let _ = c.is_done();
                        effects.extend(c.effects());
                        queue.extend(c.events());
                    }
                    3 => {
                        effects.extend(c.effects());
                        effects.extend(c.effects());
                        queue.extend(c.events());
                        queue.extend(c.events());
                    }
                    _ => {
                        queue.extend(c.events());
                        let _ = c.is_done();
                        effects.extend(c.effects());
                        let _ = c.is_done();
                    }
                }
                // An inspection runs the command until nothing in it is runnable: inspecting it again
                // at once - nothing has happened in between - must poll no task and yield nothing.
                // (The loop around this pass would otherwise finish silently what a truncated run left undone.)
                let mark = self.uni.sink.len();
                let (again_fx, again_ev): (Vec<_>, Vec<_>) = (c.effects().collect(), c.events().collect());
                if unsettled.is_none() && (!again_fx.is_empty() || !again_ev.is_empty() || self.uni.sink.len() != mark) {
                    unsettled = Some(format!("runnable work left behind when the call returned: a command inspected directly was inspected again at once and {} ({} more effects, {} more events)", if self.uni.sink.len() != mark { "its tasks ran again" } else { "had more outputs" }, again_fx.len(), again_ev.len()));
                }
                effects.extend(again_fx);
                queue.extend(again_ev);
            }
            if self.unsettled.is_none() {
                self.unsettled = unsettled.take();
            }
            if !effects.is_empty() || self.uni.sink.len() != before {
                progressed = true;
            }
            let mut new_roots = vec![];
            while let Some(ev) = queue.pop_front() {
                progressed = true;
                if let Some((_, c)) = apply_event(&self.uni, model, ev) {
                    new_roots.push(compile(&c, &self.uni));
                }
            }
            roots.extend(new_roots);
            all.extend(self.absorb_typed(effects));
            if !progressed {
                break;
            }
        }
        all
    }

    /// stream host: poll every command whose waker was used until it is pending again; apply the
    /// events it yields (FIFO), which may create further commands; repeat until nothing is woken
    fn settle_streamed(&mut self) -> Vec<Op> {
        use futures::Stream;
        use std::sync::atomic::Ordering::SeqCst;
        let mut all = vec![];
        loop {
            let mut progressed = false;
            let Inner::Streamed { roots, model, queue, wakes, polls } = &mut self.inner else { unreachable!() };
            let mut effects = vec![];
            for (slot, flag) in roots.iter_mut() {
                if !flag.0.swap(false, SeqCst) {
                    continue;
                }
                *wakes += 1;
                let Some(cmd) = slot.as_mut() else { continue };
                let waker = std::task::Waker::from(flag.clone());
                let mut cx = std::task::Context::from_waker(&waker);
                loop {
                    *polls += 1;
                    match std::pin::Pin::new(&mut *cmd).poll_next(&mut cx) {
                        std::task::Poll::Ready(Some(crux_core::command::CommandOutput::Effect(e))) => effects.push(e),
                        std::task::Poll::Ready(Some(crux_core::command::CommandOutput::Event(e))) => queue.push_back(e),
                        std::task::Poll::Ready(None) => {
                            *slot = None; // finished: a host drops the command
                            break;
                        }
                        std::task::Poll::Pending => break,
                    }
                }
                progressed = true;
            }
            let mut new_roots = vec![];
            while let Some(ev) = queue.pop_front() {
                progressed = true;
                if let Some((_, c)) = apply_event(&self.uni, model, ev) {
                    new_roots.push((Some(compile(&c, &self.uni)), Arc::new(Flag(std::sync::atomic::AtomicBool::new(true)))));
                }
            }
            roots.extend(new_roots);
            all.extend(self.absorb_typed(effects));
            if !progressed {
                break;
            }
        }
        all
    }

    pub fn send(&mut self, ev: Event) -> Result<Obs, String> {
        let effects = match &mut self.inner {
            Inner::Direct { queue, .. } => {
                queue.push_back(ev);
                self.settle_direct()
            }
            Inner::Streamed { queue, .. } => {
                queue.push_back(ev);
                self.settle_streamed()
            }
            Inner::Typed(core) => {
                let e = core.process_event(ev);
                self.absorb_typed(e)
            }
            Inner::Byte(b) => {
                let r = b.event(&ev)?;
                self.absorb_bytes(r)?
            }
        };
        Ok(Obs { effects, resolve_ok: None })
    }

    /// `one_shot`: the request is consumed by this resolution (its id is free again before the
    /// follow-up requests of the same call are registered)
    pub fn resolve(&mut self, path: &Path, out: Out, one_shot: bool) -> Result<Obs, String> {
        match &mut self.inner {
            Inner::Direct { .. } => {
                let Some(r) = self.typed.get_mut(path) else { return Err(format!("driver error: no request object for {path:?}")) };
                let ok = r.resolve(out).is_ok();
                Ok(Obs { effects: self.settle_direct(), resolve_ok: Some(ok) })
            }
            Inner::Streamed { .. } => {
                let Some(r) = self.typed.get_mut(path) else { return Err(format!("driver error: no request object for {path:?}")) };
                let ok = r.resolve(out).is_ok();
                Ok(Obs { effects: self.settle_streamed(), resolve_ok: Some(ok) })
            }
            Inner::Typed(core) => {
                let Some(r) = self.typed.get_mut(path) else { return Err(format!("driver error: no request object for {path:?}")) };
                match core.resolve(r, out) {
                    Ok(e) => Ok(Obs { effects: self.absorb_typed(e), resolve_ok: Some(true) }),
                    Err(_) => Ok(Obs { effects: vec![], resolve_ok: Some(false) }),
                }
            }
            Inner::Byte(b) => {
                let Some(id) = self.ids.get(path).copied() else { return Err(format!("driver error: no id for {path:?}")) };
                let res = vkit::panics::catch(|| b.respond(id, &out)).map_err(|p| format!("[bridge-panic] handle_response for id {id} panicked instead of returning an error: {p}"))??;
                if one_shot || res.is_err() {
                    self.outstanding_ids.retain(|i| *i != id);
                    self.released.push(id);
                }
                match res {
                    Ok(reqs) => Ok(Obs { effects: self.absorb_bytes(reqs)?, resolve_ok: Some(true) }),
                    Err(_) => Ok(Obs { effects: vec![], resolve_ok: Some(false) }),
                }
            }
        }
    }

    /// C12: offer raw bytes as an event. Ok(None) = rejected by the bridge.
    pub fn send_bytes(&mut self, bytes: &[u8]) -> Result<Option<Obs>, String> {
        let Inner::Byte(b) = &self.inner else { return Err("driver error: raw bytes need a byte host".into()) };
        match b.event_bytes(bytes)? {
            Err(_) => Ok(None),
            Ok(reqs) => Ok(Some(Obs { effects: self.absorb_bytes(reqs)?, resolve_ok: None })),
        }
    }
    /// C12: offer raw bytes as the response to an outstanding request. Ok(None) = rejected.
    pub fn respond_bytes(&mut self, path: &Path, bytes: &[u8], one_shot: bool) -> Result<Option<Obs>, String> {
        let Inner::Byte(b) = &self.inner else { return Err("driver error: raw bytes need a byte host".into()) };
        let Some(id) = self.ids.get(path).copied() else { return Err(format!("driver error: no id for {path:?}")) };
        let res = b.respond_bytes(id, bytes)?;
        if one_shot {
            self.outstanding_ids.retain(|i| *i != id);
            self.released.push(id);
        }
        match res {
            Err(_) => Ok(None),
            Ok(reqs) => Ok(Some(Obs { effects: self.absorb_bytes(reqs)?, resolve_ok: Some(true) })),
        }
    }
    /// C12: offer raw bytes as the response to an id that names no outstanding request (a
    /// notification, an id never handed out, an answered one-shot). Ok(true) = the bridge accepted it.
    pub fn respond_bytes_to_id(&mut self, id: u32, bytes: &[u8]) -> Result<bool, String> {
        let Inner::Byte(b) = &self.inner else { return Err("driver error: raw bytes need a byte host".into()) };
        Ok(b.respond_bytes(id, bytes)?.is_ok())
    }
    /// hosts that hold the command objects: which of them still exist (a stream host drops a finished one)
    pub fn commands_held(&self) -> Option<Vec<bool>> {
        match &self.inner {
            Inner::Direct { roots, .. } => Some(vec![true; roots.len()]),
            Inner::Streamed { roots, .. } => Some(roots.iter().map(|(c, _)| c.is_some()).collect()),
            _ => None,
        }
    }
    /// `Command::spawn` on the `ix`-th command returned by update
    pub fn late_spawn(&mut self, ix: usize, path: Path, task: Vec<Stmt>) {
        match &mut self.inner {
            Inner::Direct { roots, .. } => crate::cruxrt::spawn_on(&mut roots[ix], &self.uni, path, task),
            Inner::Streamed { roots, .. } => {
                let flag = roots[ix].1.clone();
                if let Some(c) = roots[ix].0.as_mut() {
                    crate::cruxrt::spawn_on(c, &self.uni, path, task);
                    // the host knows that it has changed the command: it polls it again
                    flag.0.store(true, std::sync::atomic::Ordering::SeqCst);
                }
            }
            _ => {}
        }
    }
    pub fn is_json(&self) -> bool {
        matches!(self.inner, Inner::Byte(Byte::Json(_)))
    }

    pub fn drop_request(&mut self, path: &Path) {
        self.typed.remove(path);
    }

    pub fn view(&self) -> Result<Vec<Event>, String> {
        match &self.inner {
            Inner::Direct { model, .. } | Inner::Streamed { model, .. } => Ok(model.log.clone()),
            Inner::Typed(core) => Ok(core.view()),
            Inner::Byte(b) => b.view(),
        }
    }

    /// tasks held by the core's executor (verif hook)
    pub fn executor_tasks(&self) -> Option<usize> {
        match &self.inner {
            Inner::Direct { .. } | Inner::Streamed { .. } => None,
            Inner::Typed(core) => Some(core.verif_executor_tasks()),
            Inner::Byte(Byte::Bin(b)) => Some(b.verif_core().verif_executor_tasks()),
            Inner::Byte(Byte::Json(b)) => Some(b.verif_core().verif_executor_tasks()),
        }
    }
    /// entries of the bridge's registry (verif hook): (id, kind)
    pub fn registry(&self) -> Option<Vec<(u32, &'static str)>> {
        match &self.inner {
            Inner::Byte(Byte::Bin(b)) => Some(b.verif_registry()),
            Inner::Byte(Byte::Json(b)) => Some(b.verif_registry()),
            _ => None,
        }
    }
    /// byte hosts: the id this request was given
    pub fn id_of(&self, path: &Path) -> Option<u32> {
        self.ids.get(path).copied()
    }
    /// the request that was last given this id
    pub fn owner_of(&self, id: u32) -> Option<&Path> {
        self.owner.get(&id)
    }
    /// kind (REQ / SUB / NOTE) of the request that was last given this id
    pub fn owner_kind_of(&self, id: u32) -> Option<u8> {
        self.owner_kind.get(&id).copied()
    }

    pub fn is_done(&mut self) -> Option<bool> {
        match &mut self.inner {
            Inner::Direct { roots, .. } => Some(roots.iter_mut().all(|c| c.is_done())),
            _ => None,
        }
    }
}

// ------------------------------------------------------------------------------------------------

#[derive(Debug, Default, Clone)]
pub struct CaseInfo {
    pub actions: usize,
    pub calls: usize,
    pub max_outstanding: usize,
    pub drops: usize,
    pub aborts: usize,
    pub late_resolves: usize,
    pub max_effects_in_call: usize,
    pub max_events_in_call: usize,
    pub follow_ups: usize,
    pub used_retaining_exemption: u64,
    pub used_legacy_exemption: u64,
    pub late_spawns: usize,
    pub spurious_polls: u64,
    pub id_reused: bool,
    pub out_of_order: bool,
    /// how often the set of outstanding requests became empty again
    pub returned_to_empty: usize,
    pub max_id: u32,
    pub tolerated: Vec<String>,
    pub drains: usize,
    pub garbage: usize,
    /// the schedule was cut short by the per-case work bound
    pub truncated: bool,
    /// calls during which a task aborted a command or another task
    pub in_task_aborts: usize,
}

pub struct CaseCfg {
    pub host: HostKind,
    pub tolerate_retaining: bool,
    /// byte hosts: also answer ids that are no longer registered (decided by C02 only)
    pub byte_late_resolves: bool,
    /// C13: also check that finished work is released (task futures, executor tasks, registry entries)
    pub release_checks: bool,
    /// signatures of known findings that are tolerated (and counted) instead of reported
    pub tolerate: Vec<String>,
    /// tolerate (and count) the known finding that the legacy executor keeps a task whose request was dropped
    pub tolerate_legacy_kept: bool,
}

/// Why a case failed: every clause that failed in the first failing call, and what that call was.
#[derive(Debug)]
pub struct CaseFail {
    /// the shell action whose call failed
    pub act: String,
    /// the call was a cancellation (drop / abort), a resolution addressed to cancelled work, or a
    /// call during which a task cancelled other work: its consequences are what C06 is about
    pub cancel_context: bool,
    pub msgs: Vec<String>,
}

impl CaseFail {
    fn driver(e: String) -> Self {
        CaseFail { act: String::new(), cancel_context: false, msgs: vec![e] }
    }
}

/// one call of the schedule: a generated action, or one resolution of a `Drain`
#[derive(Debug, Clone)]
enum Step {
    Act(Act),
    /// resolve the oldest (0) / newest (1) / a pseudo-randomly chosen outstanding request
    DrainOne(u8, u32),
}

fn sorted<T: Ord>(mut v: Vec<T>) -> Vec<T> {
    v.sort();
    v
}

/// Run one generated case on one host, in lock step with the reference.
///
/// `Err` lists *every* clause of the oracle that failed in the first failing call (in the order
/// they were evaluated), so that the caller can report the failure of a clause it owns even when
/// another clause fails in the same call. After a failed replay the reference is out of step and
/// nothing further is evaluated.
pub fn run_case(u: &Universe, cfg: &CaseCfg) -> Result<CaseInfo, CaseFail> {
    let mut u = u.clone();
    crate::gen::sanitize(&mut u);
    let u = &u;
    let legacy = cfg.host == HostKind::Legacy;
    // one core, both API families: only where there is a core
    let mask = if matches!(cfg.host, HostKind::Core | HostKind::BridgeBincode | HostKind::BridgeJson) { u.legacy_mask } else { 0 };
    let sink = Sink::new();
    let guard = UniCtx::register_mixed(u, sink.clone(), legacy, mask);
    let uni = guard.0.clone();
    let reference = RefRt::new(u, legacy).with_legacy_mask(mask);
    let _disposer = crate::refrt::Disposer(reference.clone());
    reference.world().tolerate_retaining = cfg.tolerate_retaining;
    reference.world().tolerate_legacy_kept = cfg.tolerate_legacy_kept;
    let mut host = Host::new(cfg.host, uni.clone());
    let mut info = CaseInfo::default();
    let mut l1 = crate::l1::L1::default();

    // the open requests as the shell sees them: path -> (kind, answered?)
    let mut open: BTreeMap<Path, Op> = BTreeMap::new();
    let mut answered: Vec<Path> = vec![];
    let mut nonce = 0u32;
    let mut issue_rank: BTreeMap<Path, usize> = BTreeMap::new();
    let mut last_resolved_rank = 0usize;
    let mut applied_before = 0usize;
    let mut was_outstanding = 0usize;

    let mut steps: VecDeque<Step> = VecDeque::new();
    steps.push_back(Step::Act(Act::Start(0)));
    steps.extend(u.acts.iter().cloned().map(Step::Act));

    while let Some(step) = steps.pop_front() {
        if l1.updates.len() > 30_000 || info.calls > 4_000 {
            info.truncated = true; // work bound per case (a long drain of a stream whose consumer emits a burst per item)
            break;
        }
        let act = match step.clone() {
            Step::Act(Act::Drain(n, pat)) => {
                // n resolutions, each its own call, judged like any other
                info.drains += 1;
                let mut seed = (pat as u32).wrapping_mul(2_654_435_761).wrapping_add(1);
                for _ in 0..n {
                    seed = seed.wrapping_mul(1_664_525).wrapping_add(1_013_904_223);
                    steps.push_front(Step::DrainOne(pat, seed));
                }
                continue;
            }
            Step::DrainOne(pat, seed) => {
                // translate into an ordinary resolution of one particular request
                let cands: Vec<(&Path, usize)> = open.iter().filter(|(_, o)| o.kind != NOTE).map(|(p, _)| (p, issue_rank.get(p).copied().unwrap_or(0))).collect();
                if cands.is_empty() {
                    continue;
                }
                let ix = match pat {
                    0 => cands.iter().enumerate().min_by_key(|(_, c)| c.1).unwrap().0,
                    1 => cands.iter().enumerate().max_by_key(|(_, c)| c.1).unwrap().0,
                    _ => (seed >> 8) as usize % cands.len(),
                };
                // the choice value that `pick` maps onto index ix
                Act::Resolve((((ix as u64) << 16).div_ceil(cands.len() as u64)).min(65535) as u16)
            }
            Step::Act(a) => a,
        };
        info.actions += 1;
        let open_paths: Vec<Path> = open.keys().cloned().collect();
        // translate the abstract action into stamped trace events + host calls
        let mut expect: Option<Expect> = None;
        let mut cancel_context = matches!(act, Act::Drop(_) | Act::AbortCmd(_) | Act::AbortTask(_) | Act::ResolveAgain(_) | Act::Garbage(_));
        let cancellations_before = reference.world().cancellations;
        let act_text = format!("{act:?}");
        let called: Result<Obs, String> = (|| {
            Ok(match act {
                Act::Drain(..) => unreachable!(),
                Act::Garbage(c) => {
                    // undecodable bytes as the response to an outstanding request: always rejected. A live
                    // stream is not affected at all; a one-shot request is lost (the bridge has used up its
                    // only resolution): for the app that is the same as the shell dropping the request
                    if host.can_drop() {
                        return Err(String::new());
                    }
                    let cands: Vec<&Path> = open_paths.iter().filter(|p| open[*p].kind != NOTE && host.id_still_names(p)).collect();
                    if cands.is_empty() {
                        return Err(String::new());
                    }
                    let path = cands[pick(c, cands.len())].clone();
                    let one_shot = open[&path].kind == REQ;
                    info.garbage += 1;
                    expect = Some(Expect::Err);
                    if one_shot {
                        sink.push(Tr::DropReq(path.clone()));
                    }
                    let bytes: &[u8] = if host.is_json() { b"\"x" } else { &[0xff] };
                    let mut obs = match vkit::panics::catch(|| host.respond_bytes(&path, bytes, one_shot)).map_err(|p| format!("[bridge-panic] handle_response panicked on undecodable bytes: {p}"))?? {
                        None => Obs { effects: vec![], resolve_ok: Some(false) },
                        Some(mut obs) => {
                            obs.resolve_ok = Some(true);
                            obs
                        }
                    };
                    if one_shot {
                        open.remove(&path);
                        // like a drop, the loss surfaces at the next call
                        obs.effects.extend(host.send(Event::Noop)?.effects);
                    }
                    obs
                }
                Act::Start(p) => {
                    let prog = (p as usize % u.programs.len()) as u16;
                    host.send(Event::Start { uni: uni.id, prog })?
                }
                Act::Noop => host.send(Event::Noop)?,
                Act::Resolve(c) => {
                    let cands: Vec<&Path> = open_paths.iter().filter(|p| open[*p].kind != NOTE).collect();
                    if cands.is_empty() {
                        return Err(String::new());
                    }
                    let path = cands[pick(c, cands.len())].clone();
                    nonce += 1;
                    let out = Out::new(nonce);
                    expect = reference.expect_resolve(&path);
                    if reference.is_cancelled_target(&path) {
                        cancel_context = true;
                    }
                    if let Some(rank) = issue_rank.get(&path).copied() {
                        if rank < last_resolved_rank {
                            info.out_of_order = true;
                        }
                        last_resolved_rank = rank;
                    }
                    sink.push(Tr::Resolve(path.clone(), out.clone()));
                    let obs = host.resolve(&path, out, open[&path].kind == REQ)?;
                    if open[&path].kind == REQ {
                        open.remove(&path);
                        answered.push(path);
                    } else if obs.resolve_ok == Some(false) {
                        open.remove(&path);
                        answered.push(path);
                    }
                    obs
                }
                Act::ResolveAgain(c) => {
                    let mut cands: Vec<Path> = answered.clone();
                    cands.extend(open_paths.iter().filter(|p| open[*p].kind == NOTE).cloned());
                    // byte hosts: once an id has been given to a later request it names that request
                    if !host.can_drop() {
                        if !cfg.byte_late_resolves {
                            return Err(String::new());
                        }
                        cands.retain(|p| host.id_still_names(p));
                    }
                    if cands.is_empty() {
                        return Err(String::new());
                    }
                    let path = cands[pick(c, cands.len())].clone();
                    nonce += 1;
                    let out = Out::new(nonce);
                    info.late_resolves += 1;
                    if open.get(&path).map_or(false, |o| o.kind == NOTE) {
                        expect = Some(Expect::Err); // a notification accepts no resolution; the reference has no cell for it
                    } else {
                        expect = reference.expect_resolve(&path);
                        sink.push(Tr::Resolve(path.clone(), out.clone()));
                    }
                    host.resolve(&path, out, false)?
                }
                Act::Drop(c) => {
                    if !host.can_drop() || open_paths.is_empty() {
                        return Err(String::new());
                    }
                    let path = open_paths[pick(c, open_paths.len())].clone();
                    info.drops += 1;
                    if open[&path].kind != NOTE {
                        sink.push(Tr::DropReq(path.clone())); // dropping a notification object means nothing to anybody
                    }
                    host.drop_request(&path);
                    open.remove(&path);
                    // a drop is not a call into the core: its consequences surface at the next call
                    host.send(Event::Noop)?
                }
                Act::SpawnOn(c, body) => {
                    let Some(held) = host.commands_held() else { return Err(String::new()) };
                    let ok = reference.late_spawn_targets();
                    let cands: Vec<usize> = (0..held.len().min(ok.len())).filter(|i| held[*i] && ok[*i]).collect();
                    if cands.is_empty() {
                        return Err(String::new());
                    }
                    let ix = cands[pick(c, cands.len())];
                    info.late_spawns += 1;
                    // (a path no program node can have: node ids stay below 65 535)
                    let path = vec![u16::MAX, info.late_spawns as u16];
                    sink.push(Tr::LateSpawn(ix, path.clone(), body.clone()));
                    host.late_spawn(ix, path, body.clone());
                    host.send(Event::Noop)?
                }
                Act::AbortCmd(c) => {
                    let slots = reference.abortable_slots();
                    if slots.is_empty() || legacy {
                        return Err(String::new());
                    }
                    let slot = slots[pick(c, slots.len())];
                    info.aborts += 1;
                    sink.push(Tr::AbortGroup(slot));
                    let hs: Vec<_> = uni.handles.lock().unwrap().iter().filter(|(s, _)| *s == slot).map(|(_, h)| h.clone()).collect();
                    for h in hs {
                        h();
                    }
                    host.send(Event::Noop)?
                }
                Act::AbortTask(c) => {
                    let keys = reference.exported_keys();
                    if keys.is_empty() || legacy {
                        return Err(String::new());
                    }
                    let key = keys[pick(c, keys.len())].clone();
                    info.aborts += 1;
                    sink.push(Tr::AbortTask(key.clone()));
                    let hs: Vec<_> = uni.exports.lock().unwrap().iter().filter(|(k, _)| *k == key).map(|(_, h)| h.clone()).collect();
                    for h in hs {
                        (h.abort)();
                    }
                    host.send(Event::Noop)?
                }
            })
        })();
        let obs = match called {
            Ok(obs) => obs,
            Err(e) if e.is_empty() => continue, // the action does not apply right now
            Err(e) => return Err(CaseFail { act: act_text, cancel_context, msgs: vec![e] }),
        };
        info.calls += 1;

        // ---- judge the call: first the model-free invariants, then the replay on the reference
        let trace = sink.take();
        if std::env::var_os("VERIF_TRACE").is_some() {
            eprintln!("--- {act_text}: effects {:?} resolve_ok {:?}", obs.effects, obs.resolve_ok);
            for t in &trace {
                eprintln!("      {t:?}");
            }
        }
        let mut fails = l1.check_call(&trace, &obs);
        if let Some(u) = host.unsettled.take() {
            fails.push(u);
        }
        if let Err(e) = reference.replay(&witness_only(&trace)) {
            fails.push(e);
            let cancel_context = cancel_context || reference.world().cancellations != cancellations_before;
            return Err(CaseFail { act: act_text, cancel_context, msgs: fails }); // the reference is out of step now
        }
        if reference.world().cancellations != cancellations_before {
            cancel_context = true; // a task aborted a command or another task during this call
            info.in_task_aborts += 1;
        }
        // what the tasks received (traced leaves): the reference, polled in the same order, must agree
        {
            let real = crate::l1::L1::deliveries_of(&trace);
            let refd: Vec<(Path, u32)> = reference.take_delivered().into_iter().filter(|(p, _)| l1.traced_leaves.contains(p)).collect();
            if sorted(real.clone()) != sorted(refd.clone()) {
                let missing: Vec<_> = refd.iter().filter(|d| !real.contains(d)).collect();
                let extra: Vec<_> = real.iter().filter(|d| !refd.contains(d)).collect();
                fails.push(format!("the shell's resolutions reached other tasks than they should: according to the reference these (request, nonce) values are delivered in this call but the task received nothing: {missing:?}; delivered although the reference delivers nothing: {extra:?}"));
            }
        }
        if let Err(e) = reference.obligations() {
            fails.push(e);
        }
        let (ref_effects, _ref_events) = reference.take_outputs();
        let got = sorted(obs.effects.clone());
        let want = sorted(ref_effects);
        if got != want {
            fails.push(format!("the call returned effects {got:?}, the reference semantics gives {want:?}"));
        }
        {
            let w = reference.world();
            if !w.pending.is_empty() {
                fails.push(format!("events were emitted but not applied when the call returned: {:?}", &w.pending[..w.pending.len().min(8)]));
            }
            info.max_events_in_call = info.max_events_in_call.max(w.applied.len() - applied_before);
            info.follow_ups = w.follow_ups as usize;
        }
        // the view is the log of the events update was given (checked whenever the log grew, and every 8th call)
        let grew = reference.world().applied.len() != applied_before;
        applied_before = reference.world().applied.len();
        if grew || info.calls % 8 == 0 {
            match host.view() {
                Err(e) => fails.push(e),
                Ok(view) => {
                    if let Some(e) = l1.check_view(&view) {
                        fails.push(e);
                    }
                }
            }
        }
        if let (Some(want), Some(got)) = (expect, obs.resolve_ok) {
            if (want == Expect::Ok) != got {
                fails.push(format!("a resolution was {} but the reference expects it to be {}", if got { "accepted" } else { "rejected" }, if want == Expect::Ok { "accepted" } else { "rejected" }));
            }
        }
        if let Some(done) = host.is_done() {
            let want = reference.root_done();
            if done != want {
                fails.push(format!("is_done() = {done}, but according to the reference {}", if want { "nothing more can happen" } else { "work remains" }));
            }
        }
        if uni.reentered.load(std::sync::atomic::Ordering::SeqCst) {
            fails.push("update was entered while another update was running".into());
        }
        if cfg.release_checks {
            use std::sync::atomic::Ordering::SeqCst;
            let (alive, unfinished) = (sink.wrappers_alive.load(SeqCst), sink.wrappers_unfinished.load(SeqCst));
            if alive != unfinished {
                fails.push(format!("[finished-task-retained] {} task futures that have finished are still held when the call returns", alive - unfinished));
            }
            if !legacy {
                if let Some(n) = host.executor_tasks() {
                    let (cmds, tasks) = (reference.live_hosted_commands(), reference.live_legacy_tasks());
                    if n != cmds + tasks {
                        fails.push(format!("[executor-occupancy] the core's executor holds {n} tasks, {cmds} commands returned by update are unfinished{}", if tasks > 0 { format!(" and {tasks} tasks of the legacy API have not finished") } else { String::new() }));
                    }
                }
            }
            if let Some(entries) = host.registry() {
                for (id, kind) in entries {
                    let sig = match kind {
                        // an entry that accepts nothing: a notification (listed finding) or a consumed one-shot
                        "never" if host.owner_kind_of(id) == Some(NOTE) => Some("registry-keeps-notifications"),
                        "never" => Some("registry-keeps-resolved-request"),
                        "many" if host.owner_of(id).map_or(true, |p| reference.stream_ended(p)) => Some("registry-keeps-ended-streams"),
                        "once" if !host.outstanding_ids.contains(&id) => Some("registry-keeps-resolved-request"),
                        _ => None,
                    };
                    if let Some(sig) = sig {
                        if cfg.tolerate.iter().any(|t| t == sig) {
                            if !info.tolerated.iter().any(|t| t == sig) {
                                info.tolerated.push(sig.to_string());
                            }
                        } else {
                            fails.push(format!("[{sig}] the bridge registry still holds id {id} ({kind}) although that request can no longer be resolved"));
                            break;
                        }
                    }
                }
            }
        }
        if !fails.is_empty() {
            return Err(CaseFail { act: act_text, cancel_context, msgs: fails });
        }
        for op in obs.effects {
            info.max_effects_in_call = info.max_effects_in_call.max(got.len());
            let r = issue_rank.len();
            issue_rank.insert(op.path.clone(), r);
            open.insert(op.path.clone(), op);
        }
        let now_outstanding = open.values().filter(|o| o.kind != NOTE).count();
        if now_outstanding == 0 && was_outstanding > 0 {
            info.returned_to_empty += 1;
        }
        was_outstanding = now_outstanding;
        info.max_outstanding = info.max_outstanding.max(now_outstanding);
    }
    {
        let w = reference.world();
        info.used_retaining_exemption = w.used_retaining_exemption;
        info.used_legacy_exemption = w.used_legacy_exemption;
        info.spurious_polls = w.spurious_polls;
    }
    info.id_reused = host.id_reused_after_release;
    info.max_id = host.max_id;
    drop(host);
    if cfg.release_checks {
        let alive = sink.wrappers_alive.load(std::sync::atomic::Ordering::SeqCst);
        if alive != 0 {
            return Err(CaseFail::driver(format!("[retained-after-drop] {alive} task futures still exist after the host was dropped")));
        }
    }
    drop(guard);
    Ok(info)
}

// ------------------------------------------------------------------------------------------------
// C05, model-free clause: the same program under the same schedule on several hosts

#[derive(Debug, Default, Clone)]
pub struct CrossInfo {
    pub hosts: usize,
    pub calls: usize,
    pub max_outstanding: usize,
    pub effects_total: usize,
}

/// Is the universe in the fragment for which every host must make the *same* observations at the
/// same points? No cancellation from any side (an aborted root is cleared eagerly when inspected
/// directly and lazily when hosted - both allowed, but observable through later resolutions), no
/// event-triggered follow-up programs (their cap makes the cross-emitter event order matter).
pub fn cross_comparable(u: &Universe) -> bool {
    fn stmts_ok(t: &[Stmt]) -> bool {
        t.iter().all(|s| match s {
            // which of several waiting receivers gets a value depends on the order of task polls
            Stmt::AbortT(_) | Stmt::AbortCmd(_) | Stmt::Export(_) | Stmt::ChanRecv(_) => false,
            Stmt::StreamLoop(_, b) | Stmt::Spawn(b) | Stmt::Fan(_, b) => stmts_ok(b),
            Stmt::JoinN(bs) | Stmt::Select(bs) | Stmt::SelectKeep(bs) => bs.iter().all(|b| stmts_ok(b)),
            _ => true,
        })
    }
    fn ok(c: &Cmd) -> bool {
        match c {
            Cmd::Then(a, b) | Cmd::And(a, b) => ok(a) && ok(b),
            Cmd::All(cs) | Cmd::Collect(cs) => cs.iter().all(ok),
            Cmd::MapEvent(_, c) | Cmd::MapEffect(_, c) | Cmd::Abortable(_, c) => ok(c),
            Cmd::WithSpawn(_, c, t) => ok(c) && stmts_ok(t),
            Cmd::Async(_, t) => stmts_ok(t),
            _ => true,
        }
    }
    u.follow.is_none() && u.programs.iter().all(ok)
}

fn norm_view(v: Vec<Event>) -> Vec<Event> {
    fn n(e: Event) -> Event {
        match e {
            Event::Start { prog, .. } => Event::Start { uni: 0, prog },
            Event::Mapped(i, e) => Event::Mapped(i, Box::new(n(*e))),
            e => e,
        }
    }
    sorted(v.into_iter().map(n).collect())
}

/// Run one universe in lock step on `hosts` (no reference runtime involved) and compare, after
/// every shell action, the effects returned (paths, kinds, `map_effect` marks), the result of the
/// resolution, and the events applied so far (as a multiset). `drops`: the schedule's drops are
/// performed (typed hosts only).
pub fn run_cross(u: &Universe, hosts: &[HostKind], drops: bool) -> Result<CrossInfo, String> {
    let mut u = u.clone();
    crate::gen::sanitize(&mut u);
    let u = &u;
    let mut guards = vec![];
    let mut hs: Vec<Host> = vec![];
    for k in hosts {
        let g = UniCtx::register(u, Sink::disabled(), *k == HostKind::Legacy);
        hs.push(Host::new(*k, g.0.clone()));
        guards.push(g);
    }
    let mut info = CrossInfo { hosts: hosts.len(), ..Default::default() };
    let mut open: BTreeMap<Path, Op> = BTreeMap::new();
    let mut answered: Vec<Path> = vec![];
    let mut rank: BTreeMap<Path, usize> = BTreeMap::new();
    let mut nonce = 0u32;
    let mut steps: VecDeque<Step> = VecDeque::new();
    steps.push_back(Step::Act(Act::Start(0)));
    steps.extend(u.acts.iter().cloned().map(Step::Act));
    let typed_only = hosts.iter().all(|k| !matches!(k, HostKind::BridgeBincode | HostKind::BridgeJson));
    let mut events_seen = 0usize;
    while let Some(step) = steps.pop_front() {
        if events_seen > 30_000 || info.calls > 4_000 {
            break;
        }
        let act = match step {
            Step::Act(Act::Drain(n, pat)) => {
                let mut seed = (pat as u32).wrapping_mul(2_654_435_761).wrapping_add(1);
                for _ in 0..n {
                    seed = seed.wrapping_mul(1_664_525).wrapping_add(1_013_904_223);
                    steps.push_front(Step::DrainOne(pat, seed));
                }
                continue;
            }
            Step::DrainOne(pat, seed) => {
                let cands: Vec<(&Path, usize)> = open.iter().filter(|(_, o)| o.kind != NOTE).map(|(p, _)| (p, rank.get(p).copied().unwrap_or(0))).collect();
                if cands.is_empty() {
                    continue;
                }
                let ix = match pat {
                    0 => cands.iter().enumerate().min_by_key(|(_, c)| c.1).unwrap().0,
                    1 => cands.iter().enumerate().max_by_key(|(_, c)| c.1).unwrap().0,
                    _ => (seed >> 8) as usize % cands.len(),
                };
                Act::Resolve((((ix as u64) << 16).div_ceil(cands.len() as u64)).min(65535) as u16)
            }
            Step::Act(a) => a,
        };
        // what to do, decided once for all hosts
        enum Do {
            Send(bool, u16),
            Resolve(Path, Out, bool),
            Drop(Path),
        }
        let todo = match act {
            Act::Start(p) => Do::Send(true, (p as usize % u.programs.len()) as u16),
            Act::Noop => Do::Send(false, 0),
            Act::Resolve(c) => {
                let cands: Vec<&Path> = open.keys().filter(|p| open[*p].kind != NOTE).collect();
                if cands.is_empty() {
                    continue;
                }
                let path = cands[pick(c, cands.len())].clone();
                nonce += 1;
                Do::Resolve(path.clone(), Out::new(nonce), open[&path].kind == REQ)
            }
            Act::ResolveAgain(c) if typed_only => {
                let mut cands: Vec<Path> = answered.clone();
                cands.extend(open.keys().filter(|p| open[*p].kind == NOTE).cloned());
                if cands.is_empty() {
                    continue;
                }
                nonce += 1;
                Do::Resolve(cands[pick(c, cands.len())].clone(), Out::new(nonce), false)
            }
            Act::Drop(c) if drops && typed_only => {
                let cands: Vec<&Path> = open.keys().collect();
                if cands.is_empty() {
                    continue;
                }
                Do::Drop(cands[pick(c, cands.len())].clone())
            }
            _ => continue,
        };
        info.calls += 1;
        let mut seen: Vec<(Vec<Op>, Option<bool>, Vec<Event>)> = vec![];
        for h in hs.iter_mut() {
            let obs = match &todo {
                Do::Send(true, prog) => h.send(Event::Start { uni: h.uni.id, prog: *prog })?,
                Do::Send(false, _) => h.send(Event::Noop)?,
                Do::Resolve(path, out, one_shot) => h.resolve(path, out.clone(), *one_shot)?,
                Do::Drop(path) => {
                    h.drop_request(path);
                    h.send(Event::Noop)?
                }
            };
            seen.push((sorted(obs.effects), obs.resolve_ok, norm_view(h.view()?)));
        }
        for (k, s) in seen.iter().enumerate().skip(1) {
            if s.0 != seen[0].0 {
                return Err(format!("after {act:?} the {:?} host returned effects {:?}, the {:?} host {:?} (same program, same schedule)", hosts[0], seen[0].0, hosts[k], s.0));
            }
            if s.1 != seen[0].1 {
                return Err(format!("after {act:?} the resolution was accepted = {:?} on the {:?} host and {:?} on the {:?} host", seen[0].1, hosts[0], s.1, hosts[k]));
            }
            if s.2 != seen[0].2 {
                let (a, b) = (&seen[0].2, &s.2);
                let only_a: Vec<&Event> = a.iter().filter(|e| !b.contains(e)).take(4).collect();
                let only_b: Vec<&Event> = b.iter().filter(|e| !a.contains(e)).take(4).collect();
                return Err(format!("after {act:?} the events applied so far differ between the {:?} host ({} events, e.g. only there: {only_a:?}) and the {:?} host ({} events, e.g. only there: {only_b:?})", hosts[0], a.len(), hosts[k], b.len()));
            }
        }
        events_seen = seen[0].2.len();
        info.effects_total += seen[0].0.len();
        match todo {
            Do::Resolve(path, _, one_shot) => {
                if one_shot || seen[0].1 == Some(false) {
                    if open.remove(&path).is_some() {
                        answered.push(path);
                    }
                }
            }
            Do::Drop(path) => {
                open.remove(&path);
            }
            Do::Send(..) => {}
        }
        for op in seen.swap_remove(0).0 {
            let r = rank.len();
            rank.insert(op.path.clone(), r);
            open.insert(op.path.clone(), op);
        }
        info.max_outstanding = info.max_outstanding.max(open.values().filter(|o| o.kind != NOTE).count());
    }
    drop(hs);
    drop(guards);
    Ok(info)
}
