//! The test app and the per-case context it shares with the compiler and the shell driver.

use crate::dsl::*;
use crate::rt::JoinH;
use crate::trace::{Path, Sink, Tr};
use crux_core::capability::{CapabilityContext, Operation};
use crux_core::macros::Effect;
use crux_core::render::Render;
use crux_core::Command;
use std::collections::HashMap;
use std::sync::atomic::{AtomicBool, AtomicU64, Ordering};
use std::sync::{Arc, Mutex};

impl Operation for Op {
    type Output = Out;
}

/// The capability written against the legacy API (`CapabilityContext`); the command API uses the
/// same operation type through `Effect: From<Request<Op>>`.
pub struct Sim<Ev> {
    pub ctx: CapabilityContext<Op, Ev>,
}

impl<Ev: 'static> Sim<Ev> {
    pub fn new(ctx: CapabilityContext<Op, Ev>) -> Self {
        Self { ctx }
    }
}

impl<Ev> crux_core::Capability<Ev> for Sim<Ev> {
    type Operation = Op;
    type MappedSelf<M> = Sim<M>;
    fn map_event<F, NewEv>(&self, f: F) -> Sim<NewEv>
    where
        F: Fn(NewEv) -> Ev + Send + Sync + 'static,
        Ev: 'static,
        NewEv: 'static + Send,
    {
        Sim::new(self.ctx.map_event(f))
    }
}

#[derive(Effect)]
pub struct Capabilities {
    pub sim: Sim<Event>,
    pub render: Render<Event>,
}

/// Everything one generated case shares between `update` (which has no other way to reach it),
/// the compiler and the shell driver.
pub struct UniCtx {
    pub id: u64,
    pub programs: Vec<Cmd>,
    pub follow: Option<(u8, u8)>,
    pub sink: Arc<Sink>,
    /// abort handles of `Abortable` nodes: (slot = node id, abort)
    pub handles: Mutex<Vec<(u16, Arc<dyn Fn() + Send + Sync>)>>,
    /// join handles exported by tasks
    pub exports: Mutex<Vec<(Path, JoinH)>>,
    /// task-to-task channels (shared by every task of the universe, whatever command it lives in)
    pub chans: Vec<Arc<crate::rt::Chan>>,
    /// legacy host: run programs through the capability API instead of returning commands
    pub legacy: bool,
    /// mixed core: the programs whose bit is set run through the capability API (if expressible there)
    pub legacy_mask: u8,
    /// direct host: inspection style (see `Universe::inspect`)
    pub inspect: u8,
    in_update: AtomicBool,
    pub reentered: AtomicBool,
}

static NEXT_UNI: AtomicU64 = AtomicU64::new(1);
static UNIVERSES: Mutex<Option<HashMap<u64, Arc<UniCtx>>>> = Mutex::new(None);

pub struct UniGuard(pub Arc<UniCtx>);

impl Drop for UniGuard {
    fn drop(&mut self) {
        if let Some(m) = UNIVERSES.lock().unwrap().as_mut() {
            m.remove(&self.0.id);
        }
    }
}

impl UniCtx {
    pub fn register(u: &Universe, sink: Arc<Sink>, legacy: bool) -> UniGuard {
        Self::register_mixed(u, sink, legacy, 0)
    }
    pub fn register_mixed(u: &Universe, sink: Arc<Sink>, legacy: bool, legacy_mask: u8) -> UniGuard {
        let ctx = Arc::new(UniCtx {
            // sparse ids: a corrupted id (C12) must not name another live universe
            id: vkit::splitmix(NEXT_UNI.fetch_add(1, Ordering::Relaxed)) | 1,
            programs: u.programs.clone(),
            follow: u.follow,
            sink,
            handles: Mutex::new(vec![]),
            exports: Mutex::new(vec![]),
            chans: (0..CHANS).map(|_| Arc::new(crate::rt::Chan::default())).collect(),
            legacy,
            legacy_mask,
            inspect: u.inspect,
            in_update: AtomicBool::new(false),
            reentered: AtomicBool::new(false),
        });
        UNIVERSES.lock().unwrap().get_or_insert_with(HashMap::new).insert(ctx.id, ctx.clone());
        UniGuard(ctx)
    }
    pub fn lookup(id: u64) -> Option<Arc<UniCtx>> {
        UNIVERSES.lock().unwrap().as_ref().and_then(|m| m.get(&id).cloned())
    }
}

/// the `inst`-th instantiation of a program gets its own block of node ids, so that structural
/// paths stay unique when a program runs more than once
pub fn instantiate(programs: &[Cmd], prog: u16, inst: u16) -> Option<Cmd> {
    let mut c = programs.get(prog as usize)?.clone();
    let mut n = inst.checked_mul(200)?;
    c.number_from(&mut n);
    Some(c)
}

/// which program an applied event starts, if any — a pure function shared with the reference
pub fn follow_up(follow: Option<(u8, u8)>, ev: &Event, started_follow_ups: u16) -> Option<u16> {
    let (modulus, prog) = follow?;
    match ev {
        Event::Tag { tag, .. } if started_follow_ups < MAX_FOLLOW && modulus > 0 && tag % modulus as u16 == 0 => Some(prog as u16),
        _ => None,
    }
}

/// mixed core: does program `p` run through the legacy capability API? (shared with the reference)
pub fn through_legacy_api(mask: u8, p: u16, c: &Cmd) -> bool {
    p < 8 && mask & (1 << p) != 0 && crate::legacy::expressible(c)
}

/// what `update` does with an event, apart from building the command: log it, stamp the witness,
/// detect re-entrancy, decide which program (if any) the event starts
pub fn apply_event(u: &Arc<UniCtx>, model: &mut Model, ev: Event) -> Option<(u16, Cmd)> {
    if u.in_update.swap(true, Ordering::SeqCst) {
        u.reentered.store(true, Ordering::SeqCst);
    }
    u.sink.push(Tr::Update(ev.clone()));
    model.log.push(ev.clone());
    let prog = match &ev {
        Event::Start { prog, .. } => Some(*prog),
        e => {
            let p = follow_up(u.follow, e, model.follow_ups);
            if p.is_some() {
                model.follow_ups += 1;
            }
            p
        }
    };
    let cmd = prog.and_then(|p| {
        let c = instantiate(&u.programs, p, model.instances);
        model.instances += 1;
        c.map(|c| (p, c))
    });
    u.in_update.store(false, Ordering::SeqCst);
    cmd
}

#[derive(Default)]
pub struct App;

#[derive(Default)]
pub struct Model {
    pub log: Vec<Event>,
    pub uni: Option<Arc<UniCtx>>,
    pub instances: u16,
    pub follow_ups: u16,
}

impl crux_core::App for App {
    type Event = Event;
    type Model = Model;
    type ViewModel = Vec<Event>;
    type Capabilities = Capabilities;
    type Effect = Effect;

    fn update(&self, ev: Event, model: &mut Model, caps: &Capabilities) -> Command<Effect, Event> {
        if let (Event::Start { uni, .. }, None) = (&ev, &model.uni) {
            model.uni = UniCtx::lookup(*uni);
        }
        let Some(u) = model.uni.clone() else { return Command::done() };
        crate::conc::app_point("app.update"); // C08: the caller holds the model's write lock here
        match apply_event(&u, model, ev) {
            None => Command::done(),
            Some((p, c)) if u.legacy || through_legacy_api(u.legacy_mask, p, &c) => {
                crate::legacy::run_program(&caps.sim, &u, &c);
                Command::done()
            }
            Some((_, c)) => crate::cruxrt::compile(&c, &u),
        }
    }

    fn view(&self, model: &Model) -> Vec<Event> {
        crate::conc::app_point("app.view"); // C08: the caller holds the model's read lock here
        model.log.clone()
    }
}
