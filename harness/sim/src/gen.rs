//! proptest strategies for programs, universes and shell schedules. All structural choices are
//! made by the library, so a failing case shrinks as one value.

use crate::dsl::*;
use proptest::prelude::*;

#[derive(Debug, Clone, Copy)]
pub struct GenCfg {
    pub depth: u32,
    pub max_acts: usize,
    pub abortable: bool,
    pub task_aborts: bool,
    pub retaining: bool,
    pub legacy: bool,
    /// weight of "resolve a request that was already answered / a notification" among shell actions
    pub again_weight: u32,
    /// weight of "start a program again" among shell actions
    pub start_weight: u32,
    /// wrap the first program in 1-6 extra layers of hosting combinators (C05)
    pub wrap: bool,
    /// sizes beyond every threshold a unit test stays under: bursts of > 1024 events in one call,
    /// > 1024 requests outstanding at once (with `Drain` actions that answer hundreds of them)
    pub scale: bool,
    /// weight of "undecodable bytes as the response to a live stream" (byte hosts only)
    pub garbage_weight: u32,
    /// weight of the two abort actions among shell actions
    pub abort_weight: u32,
    /// weight of "drop an outstanding request" among shell actions
    pub drop_weight: u32,
    /// weight of "spawn a further task on a command update has returned" (hosts that hold the command)
    pub late_spawn_weight: u32,
    /// task-to-task channels
    pub chans: bool,
    /// select
    pub select: bool,
    /// select-then-keep (a waker-retaining construct when run on the command API)
    pub select_keep: bool,
    /// per cent of the universes in which some programs run through the legacy capability API
    /// while the others are returned as commands (one core, both API families)
    pub mixed: u32,
    /// per cent of the universes whose first program is put behind a pending first part:
    /// `then(task awaiting a request, abortable(program))` - the shape in which a command can be
    /// aborted before it has been started
    pub behind_then: u32,
}

impl GenCfg {
    pub fn standard() -> Self {
        GenCfg { depth: 3, max_acts: 30, abortable: true, task_aborts: true, retaining: true, legacy: false, again_weight: 2, start_weight: 1, wrap: false, scale: true, garbage_weight: 0, abort_weight: 1, drop_weight: 3, late_spawn_weight: 1, chans: true, select: true, select_keep: true, mixed: 15, behind_then: 4 }
    }
    pub fn legacy() -> Self {
        GenCfg { depth: 3, max_acts: 30, abortable: false, task_aborts: false, retaining: false, legacy: true, again_weight: 2, start_weight: 1, wrap: false, scale: true, garbage_weight: 0, abort_weight: 1, drop_weight: 3, late_spawn_weight: 1, chans: true, select: true, select_keep: true, mixed: 15, behind_then: 4 }
    }
}

fn block(cfg: GenCfg) -> BoxedStrategy<Vec<Stmt>> {
    let simple = move || {
        let mut v: Vec<(u32, BoxedStrategy<Stmt>)> = vec![
            (4, (0u16..100).prop_map(Stmt::Emit).boxed()),
            (4, Just(Stmt::Await).boxed()),
            (1, Just(Stmt::Note).boxed()),
            // (scale: a task that is polled some two hundred times in one go - counters of polls, budgets, "cooperative yields")
            (1, if cfg.scale { prop_oneof![24 => 1u8..3, 1 => 100u8..250].prop_map(Stmt::Yield).boxed() } else { (1u8..3).prop_map(Stmt::Yield).boxed() }),
            (1, Just(Stmt::AwaitChain).boxed()),
            (1, if cfg.scale { prop_oneof![30 => 2u16..9, 1 => 1020u16..1300].prop_map(Stmt::Burst).boxed() } else { (2u16..9).prop_map(Stmt::Burst).boxed() }),
        ];
        if cfg.chans {
            v.push((1, (0u8..2).prop_map(Stmt::ChanSend).boxed()));
            v.push((1, (0u8..2).prop_map(Stmt::ChanRecv).boxed()));
        }
        if !cfg.legacy {
            v.push((1, (0u8..2).prop_map(Stmt::Join).boxed()));
            if cfg.task_aborts {
                v.push((1, (0u8..2).prop_map(Stmt::AbortT).boxed()));
                v.push((1, (0u8..2).prop_map(Stmt::Export).boxed()));
            }
            if cfg.abortable {
                v.push((1, any::<u16>().prop_map(Stmt::AbortCmd).boxed()));
            }
            if cfg.retaining {
                v.push((1, if cfg.scale { prop_oneof![20 => 31u16..35, 1 => 1030u16..1200].prop_map(Stmt::JoinBig).boxed() } else { (31u16..35).prop_map(Stmt::JoinBig).boxed() }));
            }
        }
        proptest::strategy::Union::new_weighted(v)
    };
    let leaf = prop::collection::vec(simple(), 1..4);
    leaf.prop_recursive(cfg.depth, 24, 4, move |inner| {
        let st = prop_oneof![
            6 => simple(),
            2 => (0u8..3, inner.clone()).prop_map(|(n, b)| Stmt::StreamLoop(n, b)),
            3 => inner.clone().prop_map(Stmt::Spawn),
            1 => (2u8..5, inner.clone()).prop_map(|(n, b)| Stmt::Fan(n, b)),
            (if cfg.scale { 1 } else { 0 }) => (33u8..45, big_fan_body(cfg)).prop_map(|(n, b)| Stmt::Fan(n, b)),
            1 => prop::collection::vec(inner.clone(), 1..4).prop_map(Stmt::JoinN),
            (if cfg.select { 1 } else { 0 }) => prop::collection::vec(inner.clone(), 1..4).prop_map(Stmt::Select),
            (if cfg.select && cfg.select_keep && (cfg.retaining || cfg.legacy) { 1 } else { 0 }) => prop::collection::vec(inner.clone(), 2..4).prop_map(Stmt::SelectKeep),
        ];
        prop::collection::vec(st, 1..5)
    })
    .boxed()
}

/// the body of a fan of more than 32 tasks: small, so that the case stays cheap
fn big_fan_body(cfg: GenCfg) -> BoxedStrategy<Vec<Stmt>> {
    let mut v: Vec<(u32, BoxedStrategy<Stmt>)> = vec![(2, (0u16..100).prop_map(Stmt::Emit).boxed()), (2, Just(Stmt::Await).boxed()), (1, Just(Stmt::Yield(1)).boxed())];
    if !cfg.legacy {
        v.push((4, (0u8..2).prop_map(Stmt::Join).boxed()));
    }
    prop::collection::vec(proptest::strategy::Union::new_weighted(v), 1..3).boxed()
}

pub fn task(cfg: GenCfg) -> BoxedStrategy<Vec<Stmt>> {
    block(cfg)
}

pub fn cmd(cfg: GenCfg) -> BoxedStrategy<Cmd> {
    if cfg.legacy {
        // tasks, some of them (or all of them together) behind the capability's `map_event`
        let one = (block(cfg), 0u8..5).prop_map(|(t, m)| if m == 0 { Cmd::MapEvent(0, Box::new(Cmd::Async(0, t))) } else { Cmd::Async(0, t) });
        return (prop::collection::vec(one, 1..3), 0u8..6)
            .prop_map(|(mut v, m)| {
                let c = if v.len() == 1 { v.pop().unwrap() } else { Cmd::All(v) };
                if m == 0 {
                    Cmd::MapEvent(0, Box::new(c))
                } else {
                    c
                }
            })
            .boxed();
    }
    let mut leaves: Vec<(u32, BoxedStrategy<Cmd>)> = vec![
        (1, Just(Cmd::Done).boxed()),
        (1, Just(Cmd::Event(0)).boxed()),
        (1, Just(Cmd::Notify(0)).boxed()),
        (2, Just(Cmd::Req(0)).boxed()),
        (1, Just(Cmd::ReqMap(0)).boxed()),
        (2, Just(Cmd::Sub(0)).boxed()),
        (1, Just(Cmd::ChainRR(0)).boxed()),
        (1, Just(Cmd::ChainSR(0)).boxed()),
        (1, Just(Cmd::ChainRS(0)).boxed()),
        (1, Just(Cmd::ChainSS(0)).boxed()),
        (5, block(cfg).prop_map(|t| Cmd::Async(0, t)).boxed()),
    ];
    if cfg.retaining {
        leaves.push((1, Just(Cmd::ChainSRS(0)).boxed()));
    }
    let leaf = proptest::strategy::Union::new_weighted(leaves);
    leaf.prop_recursive(cfg.depth, 20, 4, move |inner| {
        let mut v: Vec<(u32, BoxedStrategy<Cmd>)> = vec![
            (3, (inner.clone(), inner.clone()).prop_map(|(a, b)| Cmd::Then(Box::new(a), Box::new(b))).boxed()),
            (2, (inner.clone(), inner.clone()).prop_map(|(a, b)| Cmd::And(Box::new(a), Box::new(b))).boxed()),
            (3, prop::collection::vec(inner.clone(), 0..4).prop_map(Cmd::All).boxed()),
            (1, prop::collection::vec(inner.clone(), 0..3).prop_map(Cmd::Collect).boxed()),
            (2, inner.clone().prop_map(|c| Cmd::MapEvent(0, Box::new(c))).boxed()),
            (2, inner.clone().prop_map(|c| Cmd::MapEffect(0, Box::new(c))).boxed()),
            (1, (inner.clone(), block(cfg)).prop_map(|(c, t)| Cmd::WithSpawn(0, Box::new(c), t)).boxed()),
        ];
        if cfg.abortable {
            v.push((2, inner.clone().prop_map(|c| Cmd::Abortable(0, Box::new(c))).boxed()));
        }
        proptest::strategy::Union::new_weighted(v)
    })
    .boxed()
}

pub fn act(cfg: GenCfg) -> BoxedStrategy<Act> {
    let drain_len = if cfg.scale { prop_oneof![20 => 2u16..40, 1 => 500u16..1300].boxed() } else { (2u16..40).boxed() };
    let mut v: Vec<(u32, BoxedStrategy<Act>)> = vec![
        (10, any::<u16>().prop_map(Act::Resolve).boxed()),
        (cfg.drop_weight.max(1), any::<u16>().prop_map(Act::Drop).boxed()),
        (cfg.abort_weight.max(1), any::<u16>().prop_map(Act::AbortCmd).boxed()),
        (cfg.abort_weight.max(1), any::<u16>().prop_map(Act::AbortTask).boxed()),
        (1, Just(Act::Noop).boxed()),
        (1, (drain_len, any::<u8>()).prop_map(|(n, pat)| Act::Drain(n, pat)).boxed()),
    ];
    for (w, st) in [(cfg.again_weight, any::<u16>().prop_map(Act::ResolveAgain).boxed()), (cfg.start_weight, (0u8..3).prop_map(Act::Start).boxed()), (cfg.garbage_weight, any::<u16>().prop_map(Act::Garbage).boxed()), (if cfg.legacy { 0 } else { cfg.late_spawn_weight }, (any::<u16>(), big_fan_body(cfg)).prop_map(|(c, b)| Act::SpawnOn(c, b)).boxed())] {
        if w > 0 {
            v.push((w, st));
        }
    }
    proptest::strategy::Union::new_weighted(v).boxed()
}

fn wrap_in(c: Cmd, layer: u8) -> Cmd {
    match layer % 7 {
        0 => Cmd::All(vec![c]),
        1 => Cmd::Then(Box::new(Cmd::Done), Box::new(c)),
        2 => Cmd::Then(Box::new(c), Box::new(Cmd::Done)),
        3 => Cmd::And(Box::new(Cmd::Done), Box::new(c)),
        4 => Cmd::MapEvent(0, Box::new(c)),
        5 => Cmd::MapEffect(0, Box::new(c)),
        _ => Cmd::And(Box::new(c), Box::new(Cmd::Done)),
    }
}

pub fn universe(cfg: GenCfg) -> BoxedStrategy<Universe> {
    let layers = if cfg.wrap { prop::collection::vec(0u8..7, 1..7).boxed() } else { Just(vec![]).boxed() };
    // (a host without a core runs these programs as commands: nothing the command-side configuration excludes)
    let legacy_style = GenCfg { abortable: false, task_aborts: false, retaining: false, legacy: true, select_keep: cfg.select_keep && cfg.retaining, ..cfg };
    let mixed = if cfg.legacy || cfg.mixed == 0 { Just((0u32, 0u8, vec![])).boxed() } else { (0u32..100, 1u8..4, prop::collection::vec(cmd(legacy_style), 2)).boxed() };
    (prop::collection::vec(cmd(cfg), 1..3), proptest::option::weighted(0.5, (1u8..8, 0u8..3)), prop::collection::vec(act(cfg), 0..cfg.max_acts), layers, (0u32..100, 0u8..5), mixed)
        .prop_map(move |(mut programs, follow, acts, layers, (behind, inspect), (mixed_roll, mask, legacy_programs))| {
            // one core, both API families: the chosen programs are replaced by programs written for
            // the legacy API (which run inside `update`), the others stay commands
            let mut legacy_mask = 0u8;
            if mixed_roll < cfg.mixed && !legacy_programs.is_empty() {
                for (p, lp) in legacy_programs.into_iter().enumerate() {
                    if p < programs.len() && mask & (1 << p) != 0 {
                        programs[p] = lp;
                        legacy_mask |= 1 << p;
                    }
                }
            }
            if !cfg.legacy && cfg.abortable && behind < cfg.behind_then && legacy_mask & 1 == 0 {
                let p = std::mem::replace(&mut programs[0], Cmd::Done);
                programs[0] = Cmd::Then(Box::new(Cmd::Async(0, vec![Stmt::Await])), Box::new(Cmd::Abortable(0, Box::new(p))));
            }
            if !cfg.legacy && legacy_mask & 1 == 0 {
                for l in layers {
                    let p = std::mem::replace(&mut programs[0], Cmd::Done);
                    programs[0] = wrap_in(p, l);
                }
            }
            let n = programs.len() as u8;
            let mut u = Universe { programs, follow: follow.map(|(m, p)| (m, p % n)), acts, legacy_mask, inspect };
            sanitize(&mut u);
            u
        })
        .boxed()
}

/// Deterministic repairs that keep generated programs inside the documented domain:
/// * inside an `Abortable` sub-tree every leaf is a traced task (no invisible task can be aborted),
/// * `Abortable` is never the left operand of `and` nor the base of `Command::spawn`
///   (`and` and `spawn` extend that very command, so the handle would cover the extension too).
pub fn sanitize(u: &mut Universe) {
    for p in &mut u.programs {
        fix(p, false);
        tame(p);
    }
}

/// * a fan of more than 4 tasks is not repeated: inside a stream loop or another fan it is cut to 4
///   (a fan of 40 per item of a drained stream is tens of thousands of tasks per case).
fn tame(c: &mut Cmd) {
    fn stmts(t: &mut [Stmt], repeated: bool) {
        for s in t {
            match s {
                Stmt::Fan(n, b) => {
                    if repeated && *n > 4 {
                        *n = 4;
                    }
                    stmts(b, true);
                }
                Stmt::StreamLoop(_, b) => stmts(b, true),
                Stmt::Spawn(b) => stmts(b, repeated),
                Stmt::JoinN(bs) | Stmt::Select(bs) | Stmt::SelectKeep(bs) => bs.iter_mut().for_each(|b| stmts(b, repeated)),
                _ => {}
            }
        }
    }
    match c {
        Cmd::Then(a, b) | Cmd::And(a, b) => {
            tame(a);
            tame(b);
        }
        Cmd::All(cs) | Cmd::Collect(cs) => cs.iter_mut().for_each(tame),
        Cmd::MapEvent(_, c) | Cmd::MapEffect(_, c) | Cmd::Abortable(_, c) => tame(c),
        Cmd::WithSpawn(_, c, t) => {
            tame(c);
            stmts(t, false);
        }
        Cmd::Async(_, t) => stmts(t, false),
        _ => {}
    }
}

fn traced_equivalent(c: &Cmd) -> Option<Cmd> {
    Some(match c {
        Cmd::Event(_) => Cmd::Async(0, vec![Stmt::Emit(1)]),
        Cmd::Notify(_) => Cmd::Async(0, vec![Stmt::Note]),
        Cmd::Req(_) | Cmd::ReqMap(_) => Cmd::Async(0, vec![Stmt::Await, Stmt::Emit(2)]),
        Cmd::Sub(_) => Cmd::Async(0, vec![Stmt::StreamLoop(0, vec![Stmt::Emit(3)])]),
        Cmd::ChainRR(_) => Cmd::Async(0, vec![Stmt::AwaitChain, Stmt::Emit(4)]),
        Cmd::ChainSR(_) => Cmd::Async(0, vec![Stmt::StreamLoop(0, vec![Stmt::Await, Stmt::Emit(5)])]),
        Cmd::ChainRS(_) | Cmd::ChainSS(_) | Cmd::ChainSRS(_) => Cmd::Async(0, vec![Stmt::Await, Stmt::StreamLoop(0, vec![Stmt::Emit(6)])]),
        _ => return None,
    })
}

fn fix(c: &mut Cmd, in_abortable: bool) {
    if in_abortable {
        if let Some(t) = traced_equivalent(c) {
            *c = t;
        }
    }
    match c {
        Cmd::Then(a, b) => {
            fix(a, in_abortable);
            fix(b, in_abortable);
        }
        Cmd::And(a, b) => {
            while let Cmd::Abortable(_, inner) = &mut **a {
                let inner = std::mem::replace(&mut **inner, Cmd::Done);
                **a = inner;
            }
            fix(a, in_abortable);
            fix(b, in_abortable);
        }
        Cmd::All(cs) | Cmd::Collect(cs) => cs.iter_mut().for_each(|c| fix(c, in_abortable)),
        Cmd::MapEvent(_, c) | Cmd::MapEffect(_, c) => fix(c, in_abortable),
        Cmd::WithSpawn(_, c, _) => {
            while let Cmd::Abortable(_, inner) = &mut **c {
                let inner = std::mem::replace(&mut **inner, Cmd::Done);
                **c = inner;
            }
            // `spawn` extends the command it is called on: the left-most command of an `and` chain
            fix(c, in_abortable);
        }
        Cmd::Abortable(_, c) => fix(c, true),
        _ => {}
    }
}
