//! Engine B (C08): several shell threads call into one `Core` at once, under a thread schedule the
//! harness owns. crux_core's `verif::point` hook parks a registered thread at every schedule
//! point; the controller releases exactly one thread at a time according to a generated,
//! run-length-encoded choice list, so an execution is a pure function of the case and its witness
//! trace is totally ordered although the calls overlap. The oracle is the trace-guided refinement
//! of Engine A with per-phase obligations. See /verif/DESIGN.md §5.

use crate::app::{App, Effect, UniCtx};
use crate::dsl::*;
use crate::refrt::RefRt;
use crate::trace::{witness_only, Path, Sink, Tr, IN_POLL};
use crux_core::{Core, Request};
use serde::{Deserialize, Serialize};
use std::collections::BTreeMap;
use std::sync::{Arc, Condvar, Mutex, Once};
use std::time::Duration;

#[derive(Debug, Clone, PartialEq, Eq, Hash, Serialize, Deserialize)]
pub enum Job {
    /// resolve the n-th (mapped onto the live ones) outstanding request
    Resolve(u16),
    /// deliver a shell event that starts a program
    Start(u8),
    Noop,
    View,
    /// the shell drops the n-th (mapped onto the live ones) outstanding request unanswered on this
    /// thread - which wakes the task that waits for it from here - and then makes a no-op call
    #[serde(alias = "DropReq")]
    Drop(u16),
}

#[derive(Debug, Clone, PartialEq, Eq, Hash, Serialize, Deserialize)]
pub struct ConcCase {
    pub universe: Universe,
    /// one entry per phase: the calls made concurrently, one worker each
    pub phases: Vec<Vec<Job>>,
    /// (worker, burst): let this worker pass `burst` schedule points
    pub choices: Vec<(u8, u8)>,
    /// also park workers inside the app's `view` and `update` (i.e. while they hold the model lock)
    #[serde(default)]
    pub park_in_app: bool,
}

#[derive(Debug, Default, Clone)]
pub struct ConcInfo {
    pub phases: usize,
    pub concurrent_phases: usize,
    pub switches: usize,
    /// a worker was held between a command task's poll and its eviction decision while another
    /// worker passed a waker step
    pub wake_inside_eviction_window: bool,
    /// a worker was held at an executor point while another ran the executor
    pub executor_overlap: bool,
    pub points: usize,
    /// a worker was held inside `view` / `update` (holding the model lock) while another worker ran
    pub held_in_app_while_other_ran: bool,
    /// ... and that other worker blocked on the lock, so the holder had to be let go
    pub forced_releases: usize,
}

#[derive(Default)]
struct CtlState {
    parked: BTreeMap<usize, &'static str>,
    finished: Vec<usize>,
    go: std::collections::BTreeSet<usize>,
    running: std::collections::BTreeSet<usize>,
    park_in_app: bool,
    /// kernel thread ids of the workers (to tell "blocked on a lock" from "slow")
    tids: BTreeMap<usize, u32>,
}
#[derive(Default)]
struct Ctl {
    st: Mutex<CtlState>,
    cv: Condvar,
}

thread_local! { static ME: std::cell::RefCell<Option<(Arc<Ctl>, usize)>> = const { std::cell::RefCell::new(None) }; }
static INSTALL: Once = Once::new();

const HANG: Duration = Duration::from_secs(30);

fn hang(what: &str) -> ! {
    println!("why: schedule controller stuck ({what}); this is a harness problem, not a verdict");
    println!("INCONCLUSIVE property=C08");
    std::process::exit(2)
}

fn my_tid() -> Option<u32> {
    std::fs::read_link("/proc/thread-self").ok()?.file_name()?.to_str()?.parse().ok()
}

/// is this thread sleeping in the kernel (on a futex, i.e. blocked on a lock) rather than running or
/// waiting for a CPU? Unknown = assume it is, as before.
fn is_sleeping(tid: u32) -> bool {
    let Ok(stat) = std::fs::read_to_string(format!("/proc/self/task/{tid}/stat")) else { return true };
    match stat.rfind(')') {
        Some(i) => !matches!(stat[i + 1..].trim_start().chars().next(), Some('R')),
        None => true,
    }
}

impl Ctl {
    fn point(&self, me: usize, name: &'static str) {
        // a traced task poll is one atomic step of the schedule
        if IN_POLL.with(|d| d.get()) > 0 {
            return;
        }
        let mut st = self.st.lock().unwrap();
        if name.starts_with("app.") && !st.park_in_app {
            return;
        }
        st.parked.insert(me, name);
        st.running.remove(&me);
        self.cv.notify_all();
        while !st.go.contains(&me) {
            let (g, t) = self.cv.wait_timeout(st, HANG).unwrap();
            st = g;
            if t.timed_out() && !st.go.contains(&me) {
                hang("a worker was never released");
            }
        }
        st.go.remove(&me);
        st.parked.remove(&me);
        st.running.insert(me);
    }
    fn finish(&self, me: usize) {
        let mut st = self.st.lock().unwrap();
        st.finished.push(me);
        st.running.remove(&me);
        self.cv.notify_all();
    }
}

/// a schedule point inside the test app's `view` / `update`, i.e. while the calling shell thread
/// holds the core's model lock (no-op for threads that are not workers of a concurrent case)
pub fn app_point(name: &'static str) {
    let me = ME.with(|m| m.borrow().clone());
    if let Some((ctl, id)) = me {
        ctl.point(id, name);
    }
}

/// how long a released worker may stay silent before it is taken to be blocked on the model lock
/// held by a worker parked inside the app (only schedule exploration depends on this, no verdict)
const BLOCKED_AFTER: Duration = Duration::from_millis(15);

fn install_hook() {
    INSTALL.call_once(|| {
        crux_core::verif::set_schedule_hook(Some(Arc::new(|name| {
            let me = ME.with(|m| m.borrow().clone());
            if let Some((ctl, id)) = me {
                ctl.point(id, name);
            }
        })));
    });
}

enum Work {
    Drop(Request<Op>),
    Resolve(Request<Op>, Out),
    Send(Event),
    View,
}
enum Done {
    Resolved(Request<Op>, u32, Result<Vec<Effect>, String>),
    Sent(Vec<Effect>),
    Viewed(Vec<Event>),
}

fn sorted<T: Ord>(mut v: Vec<T>) -> Vec<T> {
    v.sort();
    v
}

pub fn run_conc(case: &ConcCase) -> Result<ConcInfo, String> {
    install_hook();
    let mut u = case.universe.clone();
    crate::gen::sanitize(&mut u);
    let u = &u;
    let sink = Sink::new();
    let guard = UniCtx::register(u, sink.clone(), false);
    let uni = guard.0.clone();
    let reference = RefRt::new(u, false);
    let _disposer = crate::refrt::Disposer(reference.clone());
    let core: Arc<Core<App>> = Arc::new(Core::new());
    let mut info = ConcInfo::default();
    let mut outstanding: Vec<Request<Op>> = vec![];
    let mut nonce = 0u32;
    let mut choice_ix = 0usize;

    // judge everything observed since the last judgement
    let mut judge = |effects: Vec<Effect>, outstanding: &mut Vec<Request<Op>>, views: Vec<Vec<Event>>| -> Result<(), String> {
        let trace = sink.take();
        if std::env::var_os("VERIF_TRACE").is_some() {
            for t in &trace {
                println!("      {t:?}");
            }
            println!("--- phase judged; effects returned: {:?}", effects.iter().filter_map(|e| if let Effect::Sim(r) = e { Some(&r.operation.path) } else { None }).collect::<Vec<_>>());
        }
        reference.replay(&witness_only(&trace))?;
        reference.obligations()?;
        let (ref_effects, _) = reference.take_outputs();
        let reqs: Vec<Request<Op>> = effects.into_iter().filter_map(|e| if let Effect::Sim(r) = e { Some(r) } else { None }).collect();
        let got = sorted(reqs.iter().map(|r| r.operation.clone()).collect::<Vec<_>>());
        for w in got.windows(2) {
            if w[0].path == w[1].path {
                return Err(format!("effect {:?} was returned by two calls", w[0].path));
            }
        }
        let want = sorted(ref_effects);
        if got != want {
            return Err(format!("the concurrent calls returned effects {got:?} in total, the reference semantics gives {want:?}"));
        }
        let log = core.view();
        {
            let w = reference.world();
            if !w.pending.is_empty() {
                return Err(format!("events were emitted but not applied when all calls had returned: {:?}", w.pending));
            }
            if sorted(log.clone()) != sorted(w.applied.clone()) {
                return Err(format!("the view shows {:?}, the events applied according to the reference are {:?}", log, w.applied));
            }
        }
        for v in views {
            if v.len() > log.len() || log[..v.len()] != v[..] {
                return Err(format!("a concurrent view read {v:?}, which is not a prefix of the final log {log:?}"));
            }
        }
        if uni.reentered.load(std::sync::atomic::Ordering::SeqCst) {
            return Err("update was entered while another update was running".into());
        }
        for r in reqs {
            if r.operation.kind != NOTE {
                outstanding.push(r);
            }
        }
        outstanding.sort_by(|a, b| a.operation.cmp(&b.operation));
        Ok(())
    };

    // phase 0: start the first program, alone
    let first = core.process_event(Event::Start { uni: uni.id, prog: 0 });
    judge(first, &mut outstanding, vec![])?;

    for jobs in &case.phases {
        // materialise the jobs of this phase
        let mut work: Vec<Work> = vec![];
        for j in jobs.iter().take(3) {
            match j {
                Job::Resolve(c) => {
                    let alive: Vec<usize> = (0..outstanding.len()).filter(|&i| reference.consumer_alive(&outstanding[i].operation.path)).collect();
                    if alive.is_empty() {
                        continue;
                    }
                    let req = outstanding.remove(alive[pick(*c, alive.len())]);
                    nonce += 1;
                    work.push(Work::Resolve(req, Out::new(nonce)));
                }
                Job::Drop(c) => {
                    // only requests of tasks the witness can see: when the invisible task of an opaque chain
                    // is discarded after a drop cannot be told, and the answer to a resolution of another of
                    // its requests made meanwhile on another thread depends on exactly that moment
                    let alive: Vec<usize> = (0..outstanding.len()).filter(|&i| reference.consumer_alive(&outstanding[i].operation.path) && reference.owner_is_visible(&outstanding[i].operation.path)).collect();
                    if alive.is_empty() {
                        continue;
                    }
                    work.push(Work::Drop(outstanding.remove(alive[pick(*c, alive.len())])));
                }
                Job::Start(p) => work.push(Work::Send(Event::Start { uni: uni.id, prog: (*p as usize % u.programs.len()) as u16 })),
                Job::Noop => work.push(Work::Send(Event::Noop)),
                Job::View => work.push(Work::View),
            }
        }
        if work.is_empty() {
            continue;
        }
        info.phases += 1;
        if work.len() >= 2 {
            info.concurrent_phases += 1;
        }
        let n = work.len();
        let ctl = Arc::new(Ctl::default());
        ctl.st.lock().unwrap().park_in_app = case.park_in_app;
        let handles: Vec<_> = work
            .into_iter()
            .enumerate()
            .map(|(i, w)| {
                let core = core.clone();
                let ctl = ctl.clone();
                let sink = sink.clone();
                std::thread::spawn(move || {
                    ME.with(|m| *m.borrow_mut() = Some((ctl.clone(), i)));
                    if let Some(t) = my_tid() {
                        ctl.st.lock().unwrap().tids.insert(i, t);
                    }
                    ctl.point(i, "start");
                    let done = match w {
                        Work::Resolve(mut req, out) => {
                            // stamped at the moment the action takes effect: this thread is the only one running
                            sink.push(Tr::Resolve(req.operation.path.clone(), out.clone()));
                            let nonce = out.nonce;
                            let r = core.resolve(&mut req, out).map_err(|e| e.to_string());
                            Done::Resolved(req, nonce, r)
                        }
                        Work::Drop(req) => {
                            sink.push(Tr::DropReq(req.operation.path.clone()));
                            drop(req); // closes the request's channel: the waiting task is woken from this thread
                            Done::Sent(core.process_event(Event::Noop))
                        }
                        Work::Send(ev) => Done::Sent(core.process_event(ev)),
                        Work::View => Done::Viewed(core.view()),
                    };
                    ME.with(|m| *m.borrow_mut() = None);
                    ctl.finish(i);
                    done
                })
            })
            .collect();

        // the controller: one worker runs at a time
        let (mut cur, mut burst) = (usize::MAX, 0usize);
        let mut rr = 0usize;
        loop {
            let mut st = ctl.st.lock().unwrap();
            while !(st.running.is_empty() && st.go.is_empty() && st.parked.len() + st.finished.len() == n) {
                let holders: Vec<usize> = st.parked.iter().filter(|(_, at)| at.starts_with("app.")).map(|(w, _)| *w).collect();
                let short = !holders.is_empty();
                let (g, t) = ctl.cv.wait_timeout(st, if short { BLOCKED_AFTER } else { HANG }).unwrap();
                st = g;
                // a silent worker that is running or waiting for a CPU is merely slow (a loaded machine)
                let merely_slow = short && st.running.iter().any(|w| st.tids.get(w).map_or(false, |t| !is_sleeping(*t)));
                if t.timed_out() && !merely_slow {
                    // the running worker is silent and asleep: if another worker is parked while holding the
                    // model lock, the running one is waiting for that lock - let the holder go on
                    let holders: Vec<usize> = st.parked.iter().filter(|(w, at)| at.starts_with("app.") && !st.go.contains(w)).map(|(w, _)| *w).collect();
                    match holders.first() {
                        Some(&h) => {
                            info.forced_releases += 1;
                            st.go.insert(h);
                            st.running.insert(h);
                            ctl.cv.notify_all();
                        }
                        // (only after the long wait: the holder seen before a short wait may have moved on meanwhile)
                        None if !short && !st.parked.values().any(|at| at.starts_with("app.")) => hang("workers neither parked nor finished"),
                        None => {}
                    }
                }
            }
            if st.finished.len() == n {
                break;
            }
            let ids: Vec<usize> = st.parked.keys().copied().collect();
            if burst == 0 || !ids.contains(&cur) {
                let (w, b) = match case.choices.get(choice_ix) {
                    Some(&(w, b)) => (w as usize * ids.len() >> 8, 1 + (b as usize % 16)),
                    None => {
                        rr += 1;
                        (rr % ids.len(), 1)
                    }
                };
                choice_ix += 1;
                let next = ids[w];
                if next != cur && cur != usize::MAX {
                    info.switches += 1;
                }
                cur = next;
                burst = b;
            }
            burst -= 1;
            info.points += 1;
            // classification of the schedule
            let going = st.parked[&cur];
            for (other, at) in st.parked.iter() {
                if *other == cur {
                    continue;
                }
                if (*at == "cmd.after_woken_load" || *at == "cmd.before_woken_load") && going.starts_with("cw.") {
                    info.wake_inside_eviction_window = true;
                }
                if at.starts_with("ex.") && (going.starts_with("ex.") || going.starts_with("cmd.")) {
                    info.executor_overlap = true;
                }
                if at.starts_with("app.") {
                    info.held_in_app_while_other_ran = true;
                }
            }
            st.go.insert(cur);
            st.running.insert(cur);
            ctl.cv.notify_all();
        }

        let mut effects = vec![];
        let mut views = vec![];
        let mut told: Vec<(Path, u32, bool)> = vec![];
        for h in handles {
            match h.join().map_err(|_| "a shell thread panicked inside the core".to_string())? {
                Done::Resolved(req, nonce, r) => {
                    told.push((req.operation.path.clone(), nonce, r.is_ok()));
                    if let Ok(e) = r {
                        effects.extend(e);
                        if req.operation.kind == SUB {
                            outstanding.push(req);
                        }
                    }
                }
                Done::Sent(e) => effects.extend(e),
                Done::Viewed(v) => views.push(v),
            }
        }
        judge(effects, &mut outstanding, views)?;
        // each resolution was accepted / rejected as the reference says for the moment it was made
        let log = std::mem::take(&mut reference.world().resolve_log);
        for (path, nonce, ok) in told {
            let want = log.iter().find(|(n, _)| *n == nonce).map(|(_, w)| *w);
            if want != Some(ok) {
                return Err(format!("the resolution of {path:?} was {}, the reference expects {:?} at the moment it was made", if ok { "accepted" } else { "rejected" }, want.map(|w| if w { "accepted" } else { "rejected" })));
            }
        }
    }

    // quiescence: one more call changes nothing
    let extra = core.process_event(Event::Noop);
    judge(extra, &mut outstanding, vec![])?;
    drop(outstanding);
    drop(guard);
    Ok(info)
}

pub fn path_of(r: &Request<Op>) -> &Path {
    &r.operation.path
}
