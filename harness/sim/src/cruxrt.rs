//! The command-API runtime: `Rt` on `CommandContext`, and the compiler from `Cmd` to a real
//! `Command` built with crux's own constructors and combinators.

use crate::app::{Effect, UniCtx};
use crate::dsl::*;
use crate::rt::*;
use crate::trace::Path;
use crux_core::command::CommandContext;
use crux_core::Command;
use futures::future::BoxFuture;
use futures::stream::BoxStream;
use futures::{FutureExt, StreamExt};
use std::sync::atomic::{AtomicU16, Ordering};
use std::sync::Arc;

pub type C = Command<Effect, Event>;

#[derive(Clone)]
pub struct Crux {
    ctx: CommandContext<Effect, Event>,
    uni: Arc<UniCtx>,
    /// slots of the `Abortable` nodes this task lives under, outermost first
    enclosing: Arc<Vec<u16>>,
}

impl Rt for Crux {
    fn notify(&self, op: Op) -> BoxFuture<'static, ()> {
        self.ctx.notify_shell(op);
        futures::future::ready(()).boxed()
    }
    fn request(&self, op: Op) -> BoxFuture<'static, Out> {
        self.ctx.request_from_shell(op).boxed()
    }
    fn stream(&self, op: Op) -> BoxStream<'static, Out> {
        self.ctx.stream_from_shell(op).boxed()
    }
    fn chain_rr(&self, a: Op, b: Op) -> BoxFuture<'static, Out> {
        C::request_from_shell(a).then_request(move |_| C::request_from_shell(b)).into_future(self.ctx.clone()).boxed()
    }
    fn emit(&self, ev: Event) {
        self.ctx.send_event(ev)
    }
    fn spawn(&self, _path: Path, f: Box<dyn FnOnce(Self) -> BoxFuture<'static, ()> + Send>) -> JoinH {
        let (uni, enclosing) = (self.uni.clone(), self.enclosing.clone());
        let h = self.ctx.spawn(move |ctx| f(Crux { ctx, uni, enclosing }));
        let h2 = h.clone();
        JoinH { wait: Arc::new(move || h.clone().boxed()), abort: Arc::new(move || h2.abort()) }
    }
    fn yield_now(&self) -> BoxFuture<'static, ()> {
        self_waking_yield(false)
    }
    fn yield_by_value(&self) -> BoxFuture<'static, ()> {
        self_waking_yield(true)
    }
    fn chan_send(&self, c: usize, v: u32) {
        self.uni.chans[c].send(v)
    }
    fn chan_recv(&self, c: usize) -> BoxFuture<'static, u32> {
        self.uni.chans[c].recv()
    }
    fn export(&self, key: Path, h: JoinH) {
        self.uni.exports.lock().unwrap().push((key, h));
    }
    fn abort_cmd(&self, choice: u16) -> bool {
        if self.enclosing.is_empty() {
            return false;
        }
        let slot = self.enclosing[pick(choice, self.enclosing.len())];
        let hs = self.uni.handles.lock().unwrap().clone();
        for (s, h) in hs {
            if s == slot {
                h();
            }
        }
        true
    }
}

/// events of opaque leaves: emitter = [node id], sequence number per node
fn leaf_event(id: u16, seq: &Arc<AtomicU16>, out: &Out) -> Event {
    Event::Tag { tag: id, from: vec![id, seq.fetch_add(1, Ordering::SeqCst)], val: out.digest() }
}

/// `Command::spawn` on a command that already exists (and may be running or finished)
pub fn spawn_on(cmd: &mut C, uni: &Arc<UniCtx>, path: Path, task: Vec<Stmt>) {
    let uni = uni.clone();
    cmd.spawn(move |ctx| {
        let sink = uni.sink.clone();
        task_root(Crux { ctx, uni, enclosing: Arc::new(vec![]) }, sink, path, task)
    });
}

pub fn compile(c: &Cmd, uni: &Arc<UniCtx>) -> C {
    compile_in(c, uni, &Arc::new(vec![]))
}

fn compile_in(c: &Cmd, uni: &Arc<UniCtx>, enclosing: &Arc<Vec<u16>>) -> C {
    let seq = Arc::new(AtomicU16::new(0));
    match c.clone() {
        Cmd::Done => Command::done(),
        Cmd::Event(id) => Command::event(Event::Tag { tag: id, from: vec![id, 0], val: 0 }),
        Cmd::Notify(id) => Command::notify_shell(Op::new(vec![id], NOTE)).into(),
        Cmd::Req(id) => Command::request_from_shell(Op::new(vec![id, 0], REQ)).then_send(move |o| leaf_event(id, &seq, &o)),
        Cmd::ReqMap(id) => Command::request_from_shell(Op::new(vec![id, 0], REQ)).map(|o: Out| Out { nonce: o.nonce, data: o.data.iter().rev().cloned().collect(), text: o.text.clone() }).then_send(move |o| {
            // undo the (invertible) map so that the event equals the reference's
            let o = Out { nonce: o.nonce, data: o.data.iter().rev().cloned().collect(), text: o.text.clone() };
            leaf_event(id, &seq, &o)
        }),
        Cmd::Sub(id) => Command::stream_from_shell(Op::new(vec![id, 0], SUB)).then_send(move |o| leaf_event(id, &seq, &o)),
        Cmd::ChainRR(id) => Command::request_from_shell(Op::new(vec![id, 0], REQ)).then_request(move |_| Command::request_from_shell(Op::new(vec![id, 1], REQ))).then_send(move |o| leaf_event(id, &seq, &o)),
        Cmd::ChainSR(id) => {
            let k = Arc::new(AtomicU16::new(0));
            Command::stream_from_shell(Op::new(vec![id, 0], SUB))
                .then_request(move |_| Command::request_from_shell(Op::new(vec![id, 1, k.fetch_add(1, Ordering::SeqCst)], REQ)))
                .then_send(move |o| leaf_event(id, &seq, &o))
        }
        Cmd::ChainRS(id) => Command::request_from_shell(Op::new(vec![id, 0], REQ)).then_stream(move |_| Command::stream_from_shell(Op::new(vec![id, 1], SUB))).then_send(move |o| leaf_event(id, &seq, &o)),
        Cmd::ChainSS(id) => {
            let k = Arc::new(AtomicU16::new(0));
            Command::stream_from_shell(Op::new(vec![id, 0], SUB))
                .then_stream(move |_| Command::stream_from_shell(Op::new(vec![id, 1, k.fetch_add(1, Ordering::SeqCst)], SUB)))
                .then_send(move |o| leaf_event(id, &seq, &o))
        }
        Cmd::ChainSRS(id) => {
            let k = Arc::new(AtomicU16::new(0));
            Command::stream_from_shell(Op::new(vec![id, 0], SUB))
                .then_stream(move |_| {
                    let kk = k.fetch_add(1, Ordering::SeqCst);
                    Command::request_from_shell(Op::new(vec![id, 1, kk], REQ)).then_stream(move |_| Command::stream_from_shell(Op::new(vec![id, 2, kk], SUB)))
                })
                .then_send(move |o| leaf_event(id, &seq, &o))
        }
        Cmd::Then(a, b) => compile_in(&a, uni, enclosing).then(compile_in(&b, uni, enclosing)),
        Cmd::And(a, b) => compile_in(&a, uni, enclosing).and(compile_in(&b, uni, enclosing)),
        // `all` and `collect` take any iterator: one that knows its length, one that does not (a filter
        // reports a lower bound of zero), one that is a bare generator function
        Cmd::All(cs) => match cs.len() % 3 {
            0 => Command::all(cs.iter().map(|c| compile_in(c, uni, enclosing))),
            1 => Command::all(cs.iter().filter(|_| true).map(|c| compile_in(c, uni, enclosing))),
            _ => {
                let mut it = cs.iter();
                Command::all(std::iter::from_fn(move || it.next().map(|c| compile_in(c, uni, enclosing))))
            }
        },
        Cmd::Collect(cs) => match cs.len() % 2 {
            0 => cs.iter().map(|c| compile_in(c, uni, enclosing)).collect(),
            _ => cs.iter().filter(|_| true).map(|c| compile_in(c, uni, enclosing)).collect(),
        },
        Cmd::MapEvent(id, c) => compile_in(&c, uni, enclosing).map_event(move |e| Event::Mapped(id, Box::new(e))),
        Cmd::MapEffect(id, c) => compile_in(&c, uni, enclosing).map_effect(move |e| match e {
            Effect::Sim(mut r) => {
                r.operation.marks.push(id);
                Effect::Sim(r)
            }
            other => other,
        }),
        Cmd::Async(id, task) => {
            let (uni, enclosing) = (uni.clone(), enclosing.clone());
            Command::new(move |ctx| {
                let sink = uni.sink.clone();
                task_root(Crux { ctx, uni, enclosing }, sink, vec![id], task)
            })
        }
        Cmd::WithSpawn(id, c, task) => {
            let mut cmd = compile_in(&c, uni, enclosing);
            let (uni, enclosing) = (uni.clone(), enclosing.clone());
            cmd.spawn(move |ctx| {
                let sink = uni.sink.clone();
                task_root(Crux { ctx, uni, enclosing }, sink, vec![id, 9999], task)
            });
            cmd
        }
        Cmd::Abortable(slot, c) => {
            let mut inner = (**enclosing).clone();
            inner.push(slot);
            let cmd = compile_in(&c, uni, &Arc::new(inner));
            let h = cmd.abort_handle();
            uni.handles.lock().unwrap().push((slot, Arc::new(move || h.abort())));
            cmd
        }
    }
}
