//! C12 — malformed input across the boundary fails cleanly.
//!
//! A byte host (bincode or JSON bridge) and a typed twin (`Core`) run the same generated history.
//! At generated points the byte host is offered a byte string as an event or as the response to
//! an outstanding request: random bytes, or a truncated / extended / bit-flipped / overwritten /
//! length-corrupted variant of a valid encoding. The call must return (no panic, bounded
//! allocation). If the bridge rejects the input the twin sees nothing (a rejected response to a
//! one-shot request costs that one request: the twin drops it); if it accepts, the twin is given
//! the value the bytes decode to. The rest of the history must look the same on both.

use crate::app::UniCtx;
use crate::dsl::*;
use crate::shell::{Host, HostKind, Obs};
use crate::trace::{Path, Sink};
use bincode::Options;
use serde::{Deserialize, Serialize};
use std::collections::BTreeMap;

#[derive(Debug, Clone, PartialEq, Eq, Hash, Serialize, Deserialize)]
pub enum Mutation {
    /// the valid encoding itself (accepted; control)
    Intact,
    Random(Vec<u8>),
    Truncate(u16),
    Extend(Vec<u8>),
    FlipBit(u16),
    SetByte(u16, u8),
    /// overwrite 8 bytes at the position with a large little-endian length: `.1` selects
    /// 2^63-16 / 2^40 / 2^31 / 2^27 / 2^64-1 (lengths that overflow, cannot be allocated, can be
    /// allocated but dwarf the input)
    HugeLength(u16, u8),
    /// a well-formed JSON value of the wrong shape that carries a long string (`.1` characters of 1-4
    /// UTF-8 bytes each, chosen by `.0`): as a bare string, as the single key of an object (an unknown
    /// variant), or inside an array. serde quotes such input back in its error text; on the bincode
    /// bridge these are just bytes.
    WrongShape(u8, u16),
}
#[derive(Debug, Clone, PartialEq, Eq, Hash, Serialize, Deserialize)]
pub enum Target {
    Event,
    /// the n-th outstanding request (mapped onto the outstanding ones)
    Response(u16),
    /// an id that names no outstanding request: a notification's, one that was never handed out, one
    /// whose one-shot request has been answered (mapped onto the ids 0..=max+2 that are not outstanding)
    Stray(u16),
}
#[derive(Debug, Clone, PartialEq, Eq, Hash, Serialize, Deserialize)]
pub struct Fault {
    /// before which action of the schedule
    pub at: u8,
    pub target: Target,
    pub mutation: Mutation,
}
#[derive(Debug, Clone, PartialEq, Eq, Hash, Serialize, Deserialize)]
pub struct FaultCase {
    pub universe: Universe,
    pub json: bool,
    pub faults: Vec<Fault>,
}

#[derive(Debug, Default, Clone)]
pub struct FaultInfo {
    pub offered: usize,
    pub rejected: usize,
    pub accepted: usize,
    pub mutated_valid: usize,
    /// a mutated valid encoding arrived with >= 2 other requests outstanding and >= 3 actions followed
    pub deep: bool,
    pub max_alloc: u64,
    /// responses offered under an id that names no outstanding request
    pub stray: usize,
}

/// bytes allocated by the current thread so far; installed by the check binary (counting allocator)
pub static ALLOC_PROBE: std::sync::OnceLock<fn() -> u64> = std::sync::OnceLock::new();

fn opts() -> impl bincode::Options + Copy {
    bincode::DefaultOptions::new().with_fixint_encoding().allow_trailing_bytes()
}

fn mutate(valid: Vec<u8>, m: &Mutation) -> Vec<u8> {
    let mut b = valid;
    match m {
        Mutation::Intact => {}
        Mutation::Random(r) => b = r.clone(),
        Mutation::Truncate(n) => {
            let keep = if b.is_empty() { 0 } else { *n as usize % b.len() };
            b.truncate(keep);
        }
        Mutation::Extend(x) => b.extend(x),
        Mutation::FlipBit(p) => {
            if !b.is_empty() {
                let i = *p as usize % (b.len() * 8);
                b[i / 8] ^= 1 << (i % 8);
            }
        }
        Mutation::SetByte(p, v) => {
            if !b.is_empty() {
                let i = *p as usize % b.len();
                b[i] = *v;
            }
        }
        Mutation::WrongShape(kind, len) => {
            let ch = ["a", "\u{e9}", "\u{2713}", "\u{1d11e}"][(*kind as usize / 3) % 4];
            let n = 1 + *len as usize % (560 / ch.len());
            // (an ASCII prefix of 0-2 bytes shifts where a byte limit falls inside the characters)
            let text = format!("{}{}", &"xy"[..(*kind as usize / 12) % 3], ch.repeat(n));
            b = match kind % 3 {
                0 => format!("\"{text}\""),
                1 => format!("{{\"{text}\":null}}"),
                _ => format!("[\"{text}\"]"),
            }
            .into_bytes();
        }
        Mutation::HugeLength(p, kind) => {
            if b.len() >= 8 {
                let i = *p as usize % (b.len() - 7);
                let v = [0x7fff_ffff_ffff_fff0u64, 1 << 40, 1 << 31, 1 << 27, u64::MAX][*kind as usize % 5];
                b[i..i + 8].copy_from_slice(&v.to_le_bytes());
            }
        }
    }
    b.truncate(600); // the test app's event type is recursive; depth is not what is being tested
    b
}

fn norm_view(v: Vec<Event>) -> Vec<Event> {
    fn n(e: Event) -> Event {
        match e {
            Event::Start { prog, .. } => Event::Start { uni: 0, prog },
            Event::Mapped(i, e) => Event::Mapped(i, Box::new(n(*e))),
            e => e,
        }
    }
    v.into_iter().map(n).collect()
}

fn sorted<T: Ord>(mut v: Vec<T>) -> Vec<T> {
    v.sort();
    v
}

pub fn run_fault_case(c: &FaultCase) -> Result<FaultInfo, String> {
    let mut u = c.universe.clone();
    crate::gen::sanitize(&mut u);
    let u = &u;
    let (sink_a, sink_t) = (Sink::new(), Sink::new());
    let guard_a = UniCtx::register(u, sink_a.clone(), false);
    let guard_t = UniCtx::register(u, sink_t.clone(), false);
    let (uni_a, uni_t) = (guard_a.0.clone(), guard_t.0.clone());
    let mut a = Host::new(if c.json { HostKind::BridgeJson } else { HostKind::BridgeBincode }, uni_a.clone());
    let mut t = Host::new(HostKind::Core, uni_t.clone());
    let mut info = FaultInfo::default();
    let mut open: BTreeMap<Path, Op> = BTreeMap::new();
    let mut nonce = 0u32;

    let encode_event = |json: bool, e: &Event| -> Vec<u8> { if json { serde_json::to_vec(e).unwrap() } else { opts().serialize(e).unwrap() } };
    let encode_out = |json: bool, o: &Out| -> Vec<u8> { if json { serde_json::to_vec(o).unwrap() } else { opts().serialize(o).unwrap() } };
    // like the bridge, neither codec insists on having consumed the whole input
    let decode_event = |json: bool, b: &[u8]| -> Option<Event> { if json { Event::deserialize(&mut serde_json::Deserializer::from_slice(b)).ok() } else { opts().deserialize(b).ok() } };
    let decode_out = |json: bool, b: &[u8]| -> Option<Out> { if json { Out::deserialize(&mut serde_json::Deserializer::from_slice(b)).ok() } else { opts().deserialize(b).ok() } };
    // an event accepted by the byte host, as the twin has to see it
    fn for_twin(e: Event, from: u64, to: u64) -> Event {
        match e {
            Event::Start { uni, prog } if uni == from => Event::Start { uni: to, prog },
            // a Start naming the twin's own universe would start a program there but not in the byte host
            Event::Start { uni, prog } if uni == to => Event::Start { uni: u64::MAX, prog },
            e => e,
        }
    }
    let same = |what: &str, oa: &Obs, ot: &Obs| -> Result<(), String> {
        let (ea, et) = (sorted(oa.effects.clone()), sorted(ot.effects.clone()));
        if ea != et {
            return Err(format!("{what}: the bridge that saw the malformed input returned {ea:?}, its twin {et:?}"));
        }
        if oa.resolve_ok != ot.resolve_ok {
            return Err(format!("{what}: resolution accepted = {:?} on the bridge, {:?} on its twin", oa.resolve_ok, ot.resolve_ok));
        }
        Ok(())
    };

    let mut acts: Vec<Act> = vec![Act::Start(0)];
    acts.extend(u.acts.iter().cloned());
    let total = acts.len();
    for (i, act) in acts.into_iter().enumerate() {
        // ---- faults scheduled before this action
        for f in c.faults.iter().filter(|f| f.at as usize == i) {
            let probe = ALLOC_PROBE.get().copied();
            let before = probe.map(|p| p()).unwrap_or(0);
            // bytes allocated by the bridge call that saw the input / by the twin given the value it denotes
            let (mut bridge_used, mut twin_used): (Option<u64>, Option<u64>) = (None, None);
            let others = open.values().filter(|o| o.kind != NOTE).count();
            let is_mutated_valid = !matches!(f.mutation, Mutation::Random(_) | Mutation::Intact);
            match &f.target {
                Target::Event => {
                    let valid = encode_event(c.json, &match i % 4 {
                        0 => Event::Start { uni: uni_a.id, prog: 0 },
                        1 => Event::Noop,
                        2 => Event::Text("héllo, wörld - a string field".into()),
                        _ => Event::Tag { tag: 7, from: vec![1, 2, 3], val: 9 },
                    });
                    let bytes = mutate(valid, &f.mutation);
                    info.offered += 1;
                    let r = vkit::panics::catch(|| a.send_bytes(&bytes)).map_err(|p| format!("[panic] process_event panicked on {} bytes {:?}: {p}", bytes.len(), &bytes[..bytes.len().min(40)]))??;
                    bridge_used = probe.map(|p| p() - before);
                    match r {
                        None => {
                            info.rejected += 1;
                            if norm_view(a.view()?) != norm_view(t.view()?) {
                                return Err("a rejected event changed the view".into());
                            }
                        }
                        Some(oa) => {
                            info.accepted += 1;
                            let Some(e) = decode_event(c.json, &bytes) else { return Err(format!("the bridge accepted {} bytes as an event which do not decode as one", bytes.len())) };
                            let t0 = probe.map(|p| p()).unwrap_or(0);
                            let ot = t.send(for_twin(e, uni_a.id, uni_t.id))?;
                            twin_used = probe.map(|p| p() - t0);
                            same("after an accepted mutated event", &oa, &ot)?;
                            for op in oa.effects {
                                open.insert(op.path.clone(), op);
                            }
                        }
                    }
                }
                Target::Stray(pk) => {
                    let cands: Vec<u32> = (0..=a.max_id + 2).filter(|id| !a.outstanding_ids.contains(id)).collect();
                    let id = cands[pick(*pk, cands.len())];
                    nonce += 1;
                    let bytes = mutate(encode_out(c.json, &Out::new(nonce)), &f.mutation);
                    info.offered += 1;
                    info.stray += 1;
                    let accepted = vkit::panics::catch(|| a.respond_bytes_to_id(id, &bytes)).map_err(|p| format!("[panic] handle_response for id {id} (no outstanding request) panicked on {} bytes: {p}", bytes.len()))??;
                    bridge_used = probe.map(|p| p() - before);
                    if accepted {
                        return Err(format!("[stray-accepted] the bridge accepted a response for id {id}, which names no outstanding request (outstanding: {:?})", a.outstanding_ids));
                    }
                    info.rejected += 1;
                    if norm_view(a.view()?) != norm_view(t.view()?) {
                        return Err("a rejected response to no outstanding request changed the view".into());
                    }
                }
                Target::Response(pk) => {
                    let cands: Vec<Path> = open.iter().filter(|(_, o)| o.kind != NOTE).map(|(p, _)| p.clone()).collect();
                    if cands.is_empty() {
                        continue;
                    }
                    let path = cands[pick(*pk, cands.len())].clone();
                    let one_shot = open[&path].kind == REQ;
                    nonce += 1;
                    let bytes = mutate(encode_out(c.json, &Out::new(nonce)), &f.mutation);
                    info.offered += 1;
                    let r = vkit::panics::catch(|| a.respond_bytes(&path, &bytes, one_shot)).map_err(|p| format!("[panic] handle_response panicked on {} bytes {:?}: {p}", bytes.len(), &bytes[..bytes.len().min(40)]))??;
                    bridge_used = probe.map(|p| p() - before);
                    match r {
                        None => {
                            info.rejected += 1;
                            if one_shot {
                                // the bridge has consumed the entry: this one request is lost
                                t.drop_request(&path);
                                open.remove(&path);
                                // ... and forgotten: its id is free again
                                if let (Some(id), Some(reg)) = (a.id_of(&path), a.registry()) {
                                    if reg.iter().any(|(i, _)| *i == id) && a.owner_of(id) == Some(&path) {
                                        return Err(format!("[registry] the bridge still holds id {id} after rejecting the (only possible) answer to that one-shot request"));
                                    }
                                }
                            }
                        }
                        Some(oa) => {
                            info.accepted += 1;
                            let Some(out) = decode_out(c.json, &bytes) else { return Err(format!("the bridge accepted {} bytes as a response which do not decode as one", bytes.len())) };
                            let t0 = probe.map(|p| p()).unwrap_or(0);
                            let ot = t.resolve(&path, out, one_shot)?;
                            twin_used = probe.map(|p| p() - t0);
                            same("after an accepted mutated response", &oa, &ot)?;
                            if one_shot {
                                open.remove(&path);
                            }
                            for op in oa.effects {
                                open.insert(op.path.clone(), op);
                            }
                        }
                    }
                }
            }
            if let Some(used) = bridge_used {
                info.max_alloc = info.max_alloc.max(used);
                // a rejected input does no work; an accepted one does the work of the value it denotes
                // (what the twin does with that value), serialized once more
                let bound = 16 * 1024 * 1024 + 64 * 600 + 16 * twin_used.unwrap_or(0);
                if used > bound {
                    return Err(format!("[allocation] the bridge allocated {used} bytes while handling a malformed input of <= 600 bytes (the typed twin, given the value the input denotes, allocated {:?})", twin_used));
                }
            }
            if is_mutated_valid {
                info.mutated_valid += 1;
                if others >= 2 && total - i >= 3 {
                    info.deep = true;
                }
            }
        }
        // ---- the common history
        let (oa, ot) = match act {
            Act::Start(p) => {
                let prog = (p as usize % u.programs.len()) as u16;
                (a.send(Event::Start { uni: uni_a.id, prog })?, t.send(Event::Start { uni: uni_t.id, prog })?)
            }
            Act::Resolve(ch) => {
                let cands: Vec<Path> = open.iter().filter(|(_, o)| o.kind != NOTE).map(|(p, _)| p.clone()).collect();
                if cands.is_empty() {
                    continue;
                }
                let path = cands[pick(ch, cands.len())].clone();
                let one_shot = open[&path].kind == REQ;
                nonce += 1;
                let r = (a.resolve(&path, Out::new(nonce), one_shot)?, t.resolve(&path, Out::new(nonce), one_shot)?);
                if one_shot || r.0.resolve_ok == Some(false) {
                    open.remove(&path);
                }
                r
            }
            _ => (a.send(Event::Noop)?, t.send(Event::Noop)?),
        };
        same(&format!("action {i}"), &oa, &ot)?;
        if norm_view(a.view()?) != norm_view(t.view()?) {
            return Err(format!("action {i}: the views of the bridge and its twin differ"));
        }
        for op in oa.effects {
            open.insert(op.path.clone(), op);
        }
    }
    drop(a);
    drop(t);
    drop(guard_a);
    drop(guard_t);
    Ok(info)
}
