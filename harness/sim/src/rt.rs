//! One async interpreter for the task language, generic over the runtime it runs on
//! (crux command context, crux legacy capability context, reference runtime).

use crate::dsl::*;
use crate::trace::{Path, Sink, Tr, IN_POLL};
use futures::future::BoxFuture;
use futures::stream::BoxStream;
use futures::{FutureExt, Stream, StreamExt};
use std::future::Future;
use std::pin::Pin;
use std::sync::Arc;
use std::task::{Context, Poll};

/// A join handle of whatever runtime: crux's `JoinHandle` lives in a private module, so the real
/// handle is captured by closures.
#[derive(Clone)]
pub struct JoinH {
    pub wait: Arc<dyn Fn() -> BoxFuture<'static, ()> + Send + Sync>,
    pub abort: Arc<dyn Fn() + Send + Sync>,
}

impl JoinH {
    /// for runtimes without join handles (legacy capability API)
    pub fn none() -> Self {
        JoinH { wait: Arc::new(|| futures::future::pending().boxed()), abort: Arc::new(|| {}) }
    }
}

pub trait Rt: Clone + Send + Sync + 'static {
    fn notify(&self, op: Op) -> BoxFuture<'static, ()>;
    fn request(&self, op: Op) -> BoxFuture<'static, Out>;
    fn stream(&self, op: Op) -> BoxStream<'static, Out>;
    /// a two-stage builder chain awaited inside a task
    fn chain_rr(&self, a: Op, b: Op) -> BoxFuture<'static, Out>;
    fn emit(&self, ev: Event);
    fn spawn(&self, path: Path, f: Box<dyn FnOnce(Self) -> BoxFuture<'static, ()> + Send>) -> JoinH;
    /// suspend once, waking oneself
    fn yield_now(&self) -> BoxFuture<'static, ()>;
    /// the same, but the task wakes itself through a consumed copy of its waker (`waker.clone().wake()`)
    /// instead of `wake_by_ref`: two entry points of one `Wake` implementation
    fn yield_by_value(&self) -> BoxFuture<'static, ()> {
        self.yield_now()
    }
    /// task-to-task channel `c` of the universe
    fn chan_send(&self, c: usize, v: u32);
    fn chan_recv(&self, c: usize) -> BoxFuture<'static, u32>;
    /// hand a join handle to the shell side
    fn export(&self, key: Path, h: JoinH);
    /// the current task enters / leaves a construct that keeps a clone of its waker (`FuturesUnordered`)
    fn retaining(&self, _on: bool) {}
    /// abort one of the commands this task lives in (a lexically enclosing `Abortable`, monotonic
    /// pick) through its abort handle; false where there is none
    fn abort_cmd(&self, _choice: u16) -> bool {
        false
    }
}

pub struct TaskEnv<R: Rt> {
    pub rt: R,
    pub sink: Arc<Sink>,
    pub path: Path,
    nreq: u16,
    nemit: u16,
    nsub: u16,
    pub last: u32,
    pub handles: Vec<JoinH>,
}

impl<R: Rt> TaskEnv<R> {
    pub fn new(rt: R, sink: Arc<Sink>, path: Path) -> Self {
        TaskEnv { rt, sink, path, nreq: 0, nemit: 0, nsub: 0, last: 0, handles: vec![] }
    }
    /// a sub-environment with a path that is unique per *dynamic* instance
    fn sub(&mut self, tag: u16) -> Self {
        let mut p = self.path.clone();
        p.push(tag);
        p.push(self.nsub);
        self.nsub += 1;
        TaskEnv { rt: self.rt.clone(), sink: self.sink.clone(), path: p, nreq: 0, nemit: 0, nsub: 0, last: self.last, handles: self.handles.iter().take(MAX_HANDLES).cloned().collect() }
    }
    fn next_op(&mut self, kind: u8) -> Op {
        let mut p = self.path.clone();
        p.push(self.nreq);
        self.nreq += 1;
        Op::new(p, kind)
    }
}

const T_SPAWN: u16 = 1000;
const T_JOIN: u16 = 2000;
const T_SELECT: u16 = 3000;
const T_EXPORT: u16 = 7000;
const T_KEEP: u16 = 4000;
/// join handles a task keeps (`Join` / `AbortT` / `Export` address handles 0 and 1)
const MAX_HANDLES: usize = 4;

/// a waker-retaining construct is left on completion *and* when a losing select branch is dropped
struct Retain<R: Rt>(R);
impl<R: Rt> Drop for Retain<R> {
    fn drop(&mut self) {
        self.0.retaining(false);
    }
}

pub fn run<R: Rt>(mut env: TaskEnv<R>, stmts: Vec<Stmt>) -> BoxFuture<'static, TaskEnv<R>> {
    async move {
        for s in stmts {
            match s {
                Stmt::Emit(_) if env.nemit >= 60_000 => {}
                Stmt::Emit(tag) => {
                    let mut from = env.path.clone();
                    from.push(env.nemit);
                    env.nemit += 1;
                    env.sink.push(Tr::Emit(from.clone(), tag));
                    env.rt.emit(Event::Tag { tag, from, val: env.last });
                }
                Stmt::Burst(n) => {
                    for _ in 0..n {
                        if env.nemit >= 60_000 {
                            break; // sequence numbers are 16 bit
                        }
                        let mut from = env.path.clone();
                        from.push(env.nemit);
                        env.nemit += 1;
                        env.sink.push(Tr::Emit(from.clone(), 11));
                        env.rt.emit(Event::Tag { tag: 11, from, val: env.last });
                    }
                }
                Stmt::AbortCmd(choice) => {
                    if env.rt.abort_cmd(choice) {
                        // the task has cancelled itself: it never gets past this point
                        futures::future::pending::<()>().await;
                    }
                }
                Stmt::Note => {
                    let op = env.next_op(NOTE);
                    env.rt.notify(op).await
                }
                Stmt::Await => {
                    let op = env.next_op(REQ);
                    let fut = env.rt.request(op.clone());
                    env.last = LeafReq::new(env.sink.clone(), op.path, fut).await.digest();
                }
                Stmt::AwaitChain => {
                    let (a, b) = (env.next_op(REQ), env.next_op(REQ));
                    env.last = env.rt.chain_rr(a, b).await.digest();
                }
                Stmt::Yield(n) => {
                    for i in 0..n {
                        if (i as u16 + n as u16) % 2 == 0 {
                            env.rt.yield_now().await;
                        } else {
                            env.rt.yield_by_value().await;
                        }
                    }
                }
                Stmt::ChanSend(c) => env.rt.chan_send(c as usize % CHANS, env.last),
                Stmt::ChanRecv(c) => env.last = env.rt.chan_recv(c as usize % CHANS).await,
                Stmt::StreamLoop(take, body) => {
                    let op = env.next_op(SUB);
                    let mut st = LeafSub::new(env.sink.clone(), op.path.clone(), env.rt.stream(op));
                    let mut i = 0u8;
                    while let Some(v) = st.next().await {
                        env.last = v.digest();
                        env = run(env, body.clone()).await;
                        i = i.saturating_add(1);
                        if i == take {
                            break;
                        }
                    }
                }
                Stmt::Spawn(body) => spawn_child(&mut env, body),
                Stmt::Fan(n, body) => {
                    for _ in 0..n {
                        spawn_child(&mut env, body.clone());
                    }
                }
                Stmt::Join(k) => {
                    if let Some(h) = env.handles.get(k as usize) {
                        (h.wait)().await;
                    }
                }
                Stmt::AbortT(k) => {
                    if let Some(h) = env.handles.get(k as usize) {
                        (h.abort)();
                    }
                }
                Stmt::Export(k) => {
                    if let Some(h) = env.handles.get(k as usize).cloned() {
                        let mut p = env.path.clone();
                        p.push(T_EXPORT + env.nsub);
                        env.nsub += 1;
                        env.rt.export(p, h);
                    }
                }
                Stmt::JoinN(bs) => {
                    let mut futs = vec![];
                    for (i, b) in bs.into_iter().enumerate() {
                        let e = env.sub(T_JOIN + i as u16);
                        futs.push(run(e, b));
                    }
                    let outs = futures::future::join_all(futs).await;
                    env.last = outs.iter().fold(0u32, |a, e| a.wrapping_add(e.last));
                }
                Stmt::Select(bs) => {
                    if bs.is_empty() {
                        continue;
                    }
                    let mut futs = vec![];
                    for (i, b) in bs.into_iter().enumerate() {
                        let e = env.sub(T_SELECT + i as u16);
                        futs.push(run(e, b));
                    }
                    let (winner, _index, losers) = futures::future::select_all(futs).await;
                    drop(losers);
                    env.last = winner.last;
                }
                Stmt::SelectKeep(bs) => {
                    if bs.is_empty() {
                        continue;
                    }
                    let mut futs = vec![];
                    for (i, b) in bs.into_iter().enumerate() {
                        let e = env.sub(T_KEEP + i as u16);
                        futs.push(run(e, b));
                    }
                    let (winner, _index, losers) = futures::future::select_all(futs).await;
                    env.last = winner.last;
                    if !losers.is_empty() {
                        env.rt.retaining(true);
                        let guard = Retain(env.rt.clone());
                        let mut rest: futures::stream::FuturesUnordered<_> = losers.into_iter().collect();
                        while let Some(e) = rest.next().await {
                            env.last = env.last.wrapping_add(e.last);
                        }
                        drop(guard);
                    }
                }
                Stmt::JoinBig(n) => {
                    let n = n.min(60_000u16.saturating_sub(env.nreq)); // request counters are 16 bit
                    let mut futs = vec![];
                    for _ in 0..n {
                        let op = env.next_op(REQ);
                        let fut = env.rt.request(op.clone());
                        futs.push(LeafReq::new(env.sink.clone(), op.path, fut));
                    }
                    env.rt.retaining(true);
                    let guard = Retain(env.rt.clone());
                    let outs = futures::future::join_all(futs).await;
                    drop(guard);
                    env.last = outs.iter().fold(0u32, |a, b| a.wrapping_add(b.digest()));
                }
            }
        }
        env
    }
    .boxed()
}

fn spawn_child<R: Rt>(env: &mut TaskEnv<R>, body: Vec<Stmt>) {
    let child = env.sub(T_SPAWN);
    let TaskEnv { path, last, handles, sink, .. } = child;
    let h = env.rt.spawn(
        path.clone(),
        Box::new(move |rt| {
            let mut e = TaskEnv::new(rt, sink.clone(), path.clone());
            e.last = last;
            e.handles = handles;
            traced(sink, path, run(e, body).map(|_| ()).boxed())
        }),
    );
    // (statements address the first few handles only; an unbounded list would be copied into every child)
    if env.handles.len() < MAX_HANDLES {
        env.handles.push(h);
    }
}

/// the root future of a visible task: logs the witness events
pub fn traced(sink: Arc<Sink>, path: Path, inner: BoxFuture<'static, ()>) -> BoxFuture<'static, ()> {
    sink.wrappers_alive.fetch_add(1, std::sync::atomic::Ordering::SeqCst);
    sink.wrappers_unfinished.fetch_add(1, std::sync::atomic::Ordering::SeqCst);
    Traced { sink, path, inner: Some(inner), polled: false }.boxed()
}

pub fn task_root<R: Rt>(rt: R, sink: Arc<Sink>, path: Path, stmts: Vec<Stmt>) -> BoxFuture<'static, ()> {
    let env = TaskEnv::new(rt, sink.clone(), path.clone());
    traced(sink, path, run(env, stmts).map(|_| ()).boxed())
}

struct Traced {
    sink: Arc<Sink>,
    path: Path,
    inner: Option<BoxFuture<'static, ()>>,
    polled: bool,
}

impl Future for Traced {
    type Output = ();
    fn poll(mut self: Pin<&mut Self>, cx: &mut Context<'_>) -> Poll<()> {
        self.polled = true;
        self.sink.push(Tr::Polled(self.path.clone()));
        IN_POLL.with(|d| d.set(d.get() + 1));
        let r = self.inner.as_mut().expect("polled after completion").as_mut().poll(cx);
        IN_POLL.with(|d| d.set(d.get() - 1));
        if r.is_ready() {
            self.inner = None;
            self.sink.wrappers_unfinished.fetch_sub(1, std::sync::atomic::Ordering::SeqCst);
            self.sink.push(Tr::Done(self.path.clone()));
        }
        r
    }
}

impl Drop for Traced {
    fn drop(&mut self) {
        self.sink.wrappers_alive.fetch_sub(1, std::sync::atomic::Ordering::SeqCst);
        if let Some(inner) = self.inner.take() {
            self.sink.wrappers_unfinished.fetch_sub(1, std::sync::atomic::Ordering::SeqCst);
            drop(inner);
            self.sink.push(if self.polled { Tr::Dropped(self.path.clone()) } else { Tr::DroppedUnstarted(self.path.clone()) });
        }
    }
}

/// wrapper around a one-shot request future created by the interpreter (a *traced leaf*)
pub struct LeafReq {
    sink: Arc<Sink>,
    path: Path,
    inner: BoxFuture<'static, Out>,
    polled: bool,
    done: bool,
}

impl LeafReq {
    pub fn new(sink: Arc<Sink>, path: Path, inner: BoxFuture<'static, Out>) -> Self {
        LeafReq { sink, path, inner, polled: false, done: false }
    }
}

impl Future for LeafReq {
    type Output = Out;
    fn poll(mut self: Pin<&mut Self>, cx: &mut Context<'_>) -> Poll<Out> {
        if !self.polled {
            self.polled = true;
            self.sink.push(Tr::FirstPoll(self.path.clone()));
        }
        let r = self.inner.as_mut().poll(cx);
        if let Poll::Ready(o) = &r {
            self.done = true;
            self.sink.push(Tr::Got(self.path.clone(), o.nonce, o.digest()));
        }
        r
    }
}

impl Drop for LeafReq {
    fn drop(&mut self) {
        if self.polled && !self.done {
            self.sink.push(Tr::LeafDropped(self.path.clone()));
        }
    }
}

pub struct LeafSub {
    sink: Arc<Sink>,
    path: Path,
    inner: BoxStream<'static, Out>,
    polled: bool,
    ended: bool,
}

impl LeafSub {
    pub fn new(sink: Arc<Sink>, path: Path, inner: BoxStream<'static, Out>) -> Self {
        LeafSub { sink, path, inner, polled: false, ended: false }
    }
}

impl Stream for LeafSub {
    type Item = Out;
    fn poll_next(mut self: Pin<&mut Self>, cx: &mut Context<'_>) -> Poll<Option<Out>> {
        if !self.polled {
            self.polled = true;
            self.sink.push(Tr::FirstPoll(self.path.clone()));
        }
        let r = self.inner.as_mut().poll_next(cx);
        match &r {
            Poll::Ready(Some(o)) => self.sink.push(Tr::Item(self.path.clone(), o.nonce, o.digest())),
            Poll::Ready(None) => {
                self.ended = true;
                self.sink.push(Tr::StreamEnd(self.path.clone()));
            }
            Poll::Pending => {}
        }
        r
    }
}

impl Drop for LeafSub {
    fn drop(&mut self) {
        if self.polled && !self.ended {
            self.sink.push(Tr::LeafDropped(self.path.clone()));
        }
    }
}

/// a future that suspends exactly once after waking itself (used by the crux runtimes)
pub fn self_waking_yield(by_value: bool) -> BoxFuture<'static, ()> {
    let mut first = true;
    futures::future::poll_fn(move |cx| {
        if first {
            first = false;
            if by_value {
                cx.waker().clone().wake();
            } else {
                cx.waker().wake_by_ref();
            }
            Poll::Pending
        } else {
            Poll::Ready(())
        }
    })
    .boxed()
}

/// A task-to-task channel for the real runtimes: an ordinary, well-behaved user future (unbounded
/// queue; a pending receiver stores the waker of its *latest* poll and removes it when dropped; a
/// send wakes every waiting receiver). Owned by the harness, so both API families can use it.
#[derive(Default)]
pub struct Chan {
    st: std::sync::Mutex<ChanState>,
}
#[derive(Default)]
struct ChanState {
    queue: std::collections::VecDeque<u32>,
    waiters: Vec<(u64, std::task::Waker)>,
    next: u64,
}
impl Chan {
    pub fn send(&self, v: u32) {
        let woken = {
            let mut st = self.st.lock().unwrap();
            st.queue.push_back(v);
            std::mem::take(&mut st.waiters)
        };
        for (_, w) in woken {
            w.wake();
        }
    }
    pub fn recv(self: &Arc<Self>) -> BoxFuture<'static, u32> {
        let id = {
            let mut st = self.st.lock().unwrap();
            st.next += 1;
            st.next
        };
        ChanRecv { ch: self.clone(), id }.boxed()
    }
}
struct ChanRecv {
    ch: Arc<Chan>,
    id: u64,
}
impl Future for ChanRecv {
    type Output = u32;
    fn poll(self: Pin<&mut Self>, cx: &mut Context<'_>) -> Poll<u32> {
        let mut st = self.ch.st.lock().unwrap();
        let id = self.id;
        st.waiters.retain(|(i, _)| *i != id);
        if let Some(v) = st.queue.pop_front() {
            return Poll::Ready(v);
        }
        st.waiters.push((id, cx.waker().clone()));
        Poll::Pending
    }
}
impl Drop for ChanRecv {
    fn drop(&mut self) {
        let id = self.id;
        // the waker is dropped outside the lock (dropping a waker may run runtime code)
        let gone: Vec<_> = {
            let mut st = self.ch.st.lock().unwrap();
            let (gone, kept) = std::mem::take(&mut st.waiters).into_iter().partition(|(i, _)| *i == id);
            st.waiters = kept;
            gone
        };
        drop(gone);
    }
}
