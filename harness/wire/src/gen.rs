//! Schema-valid values by construction: proptest strategies derived from a registry.
use crate::value::V;
use proptest::prelude::*;
use serde_reflection::{ContainerFormat as CF, Format as F, Named, Registry, VariantFormat as VF};
use std::rc::Rc;

fn ints(bits: u32, signed: bool) -> BoxedStrategy<V> {
    let max: u128 = if bits == 128 { u128::MAX } else { (1u128 << bits) - 1 };
    let raw = prop_oneof![
        2 => Just(0u128),
        2 => Just(max),
        1 => Just(1u128),
        1 => Just(max >> 1),
        1 => Just((max >> 1) + 1),
        4 => any::<u128>().prop_map(move |x| x & max),
    ];
    if signed {
        raw.prop_map(move |x| {
            let sh = 128 - bits;
            V::I(((x << sh) as i128) >> sh)
        })
        .boxed()
    } else {
        raw.prop_map(V::U).boxed()
    }
}

fn strings() -> BoxedStrategy<String> {
    prop_oneof![
        2 => Just(String::new()),
        3 => "[a-zA-Z0-9 _/:.-]{1,12}",
        2 => "\\PC{0,8}",
        1 => Just("\u{0}\u{10ffff}é✓".to_string()),
        1 => "[a-z]{200,300}",
    ]
    .boxed()
}

/// sizes beyond 64 KiB (and, rarely, 1 MiB): what a shell may legitimately send, far beyond what a unit test sends
fn long_strings() -> BoxedStrategy<String> {
    prop_oneof![6 => (65_530usize..65_545, any::<bool>()).prop_map(|(n, uni)| if uni { "é".repeat(n / 2) } else { "a".repeat(n) }), 2 => Just("b".repeat(70_001)), 1 => Just("c".repeat(1_048_577))].boxed()
}
fn long_bytes() -> BoxedStrategy<Vec<u8>> {
    prop_oneof![6 => (65_520usize..65_545, any::<u8>()).prop_map(|(n, b)| vec![b; n]), 2 => Just(vec![0xa5; 70_001]), 1 => Just(vec![0; 1_048_577])].boxed()
}

fn bytes() -> BoxedStrategy<Vec<u8>> {
    prop_oneof![2 => Just(vec![]), 4 => prop::collection::vec(any::<u8>(), 1..6), 1 => prop::collection::vec(any::<u8>(), 250..400)].boxed()
}

fn key_cmp(a: &V, b: &V) -> std::cmp::Ordering {
    match (a, b) {
        (V::Str(x), V::Str(y)) => x.as_bytes().cmp(y.as_bytes()),
        (V::U(x), V::U(y)) => x.cmp(y),
        (V::I(x), V::I(y)) => x.cmp(y),
        (V::Bool(x), V::Bool(y)) => x.cmp(y),
        (V::Char(x), V::Char(y)) => x.cmp(y),
        _ => format!("{a:?}").cmp(&format!("{b:?}")),
    }
}

fn named(reg: &Rc<Registry>, fs: &[Named<F>], depth: u32) -> BoxedStrategy<V> {
    let names: Vec<String> = fs.iter().map(|n| n.name.clone()).collect();
    let parts: Vec<BoxedStrategy<V>> = fs.iter().map(|n| format(reg, &n.value, depth + 1)).collect();
    parts.prop_map(move |vs| V::Struct(names.iter().cloned().zip(vs).collect())).boxed()
}

fn tuple(reg: &Rc<Registry>, fs: &[F], depth: u32) -> BoxedStrategy<V> {
    let parts: Vec<BoxedStrategy<V>> = fs.iter().map(|f| format(reg, f, depth + 1)).collect();
    parts.prop_map(V::Tuple).boxed()
}

pub fn format(reg: &Rc<Registry>, f: &F, depth: u32) -> BoxedStrategy<V> {
    let shallow = depth > 6;
    match f {
        F::TypeName(n) => container(reg, n, depth),
        F::Unit => Just(V::Unit).boxed(),
        F::Bool => any::<bool>().prop_map(V::Bool).boxed(),
        F::I8 => ints(8, true),
        F::I16 => ints(16, true),
        F::I32 => ints(32, true),
        F::I64 => ints(64, true),
        F::I128 => ints(128, true),
        F::U8 => ints(8, false),
        F::U16 => ints(16, false),
        F::U32 => ints(32, false),
        F::U64 => ints(64, false),
        F::U128 => ints(128, false),
        F::F32 => any::<u32>().prop_map(V::F32).boxed(),
        F::F64 => any::<u64>().prop_map(V::F64).boxed(),
        F::Char => any::<char>().prop_map(V::Char).boxed(),
        F::Str => prop_oneof![60 => strings(), 1 => long_strings()].prop_map(V::Str).boxed(),
        F::Bytes => prop_oneof![40 => bytes(), 1 => long_bytes()].prop_map(V::Bytes).boxed(),
        F::Option(i) => {
            if shallow {
                Just(V::None).boxed()
            } else {
                prop_oneof![1 => Just(V::None), 3 => format(reg, i, depth + 1).prop_map(|v| V::Some(Box::new(v)))].boxed()
            }
        }
        F::Seq(i) => {
            if shallow {
                Just(V::Seq(vec![])).boxed()
            } else {
                // a long sequence of a fixed-size element (u8 sequences without serde_bytes): > 64 KiB on the wire
                let long: BoxedStrategy<V> = if matches!(**i, F::U8) { (65_520usize..70_100, any::<u8>()).prop_map(|(n, b)| V::Seq(vec![V::U(b as u128); n])).boxed() } else { prop::collection::vec(format(reg, i, depth + 1), 8..12).prop_map(V::Seq).boxed() };
                prop_oneof![8 => Just(V::Seq(vec![])), 24 => prop::collection::vec(format(reg, i, depth + 1), 1..4).prop_map(V::Seq), 8 => prop::collection::vec(format(reg, i, depth + 1), 8..12).prop_map(V::Seq), 1 => long].boxed()
            }
        }
        // a map denotes a set of pairs with unique keys; it is generated in the canonical (sorted) order
        // in which an ordered Rust map writes it
        F::Map { key, value } => prop::collection::vec((format(reg, key, depth + 1), format(reg, value, depth + 1)), 0..3)
            .prop_map(|mut kv| {
                kv.sort_by(|a, b| key_cmp(&a.0, &b.0));
                kv.dedup_by(|a, b| key_cmp(&a.0, &b.0) == std::cmp::Ordering::Equal);
                V::Map(kv)
            })
            .boxed(),
        F::Tuple(fs) => tuple(reg, fs, depth),
        F::TupleArray { content, size } => tuple(reg, &vec![(**content).clone(); *size], depth),
        F::Variable(_) => Just(V::Unit).boxed(),
    }
}

pub fn container(reg: &Rc<Registry>, name: &str, depth: u32) -> BoxedStrategy<V> {
    let Some(c) = reg.get(name) else { return Just(V::Unit).boxed() };
    match c {
        CF::UnitStruct => Just(V::Unit).boxed(),
        CF::NewTypeStruct(f) => format(reg, f, depth),
        CF::TupleStruct(fs) => tuple(reg, fs, depth),
        CF::Struct(fs) => named(reg, fs, depth),
        CF::Enum(vs) => {
            let arms: Vec<BoxedStrategy<V>> = vs
                .values()
                .map(|v| {
                    let name = v.name.clone();
                    let payload = match &v.value {
                        VF::Unit | VF::Variable(_) => Just(V::Unit).boxed(),
                        VF::NewType(f) => format(reg, f, depth + 1),
                        VF::Tuple(fs) => tuple(reg, fs, depth + 1),
                        VF::Struct(fs) => named(reg, fs, depth + 1),
                    };
                    payload.prop_map(move |p| V::Variant(name.clone(), Box::new(p))).boxed()
                })
                .collect();
            proptest::strategy::Union::new(arms).boxed()
        }
    }
}

/// the names referenced by a format that are not containers of the registry
pub fn dangling(reg: &Registry) -> Vec<String> {
    fn walk(f: &F, reg: &Registry, out: &mut Vec<String>) {
        match f {
            F::TypeName(n) => {
                if !reg.contains_key(n) {
                    out.push(n.clone())
                }
            }
            F::Option(i) | F::Seq(i) => walk(i, reg, out),
            F::Map { key, value } => {
                walk(key, reg, out);
                walk(value, reg, out)
            }
            F::Tuple(fs) => fs.iter().for_each(|f| walk(f, reg, out)),
            F::TupleArray { content, .. } => walk(content, reg, out),
            _ => {}
        }
    }
    let mut out = vec![];
    for c in reg.values() {
        match c {
            CF::UnitStruct => {}
            CF::NewTypeStruct(f) => walk(f, reg, &mut out),
            CF::TupleStruct(fs) => fs.iter().for_each(|f| walk(f, reg, &mut out)),
            CF::Struct(fs) => fs.iter().for_each(|n| walk(&n.value, reg, &mut out)),
            CF::Enum(vs) => vs.values().for_each(|v| match &v.value {
                VF::NewType(f) => walk(f, reg, &mut out),
                VF::Tuple(fs) => fs.iter().for_each(|f| walk(f, reg, &mut out)),
                VF::Struct(fs) => fs.iter().for_each(|n| walk(&n.value, reg, &mut out)),
                _ => {}
            }),
        }
    }
    out
}
