//! Engine C: a schema-driven codec that is independent of serde derive output (DESIGN §6).
pub mod codec;
pub mod gen;
pub mod value;
pub use codec::{dec_c, dec_f, enc_c, enc_f, Rd};
pub use value::{to_value, V};
