//! A serde `Serializer` that turns any Rust value into a `V` tree (names, not indices).
use serde::ser::{self, Serialize};
/// A schema-independent value tree: what a shell-side value *denotes*, with variant and field names.
#[derive(Debug, Clone, PartialEq, Eq, Hash, serde::Serialize, serde::Deserialize)]
pub enum V { Unit, Bool(bool), I(i128), U(u128), F32(u32), F64(u64), Char(char), Str(String), Bytes(Vec<u8>), None, Some(Box<V>), Seq(Vec<V>), Map(Vec<(V, V)>), Tuple(Vec<V>),
    Struct(Vec<(String, V)>), Variant(String, Box<V>) /* payload: Unit | newtype value | Tuple | Struct */ }
#[derive(Debug)] pub struct E(pub String);
impl std::fmt::Display for E { fn fmt(&self, f: &mut std::fmt::Formatter) -> std::fmt::Result { write!(f, "{}", self.0) } }
impl std::error::Error for E {}
impl ser::Error for E { fn custom<T: std::fmt::Display>(m: T) -> Self { E(m.to_string()) } }
pub fn to_value<T: Serialize + ?Sized>(t: &T) -> Result<V, E> { t.serialize(S) }
pub struct S;
pub struct Sq(Vec<V>, Option<String>, bool /*tuple*/);
pub struct Mp(Vec<(V, V)>, Option<V>);
pub struct St(Vec<(String, V)>, Option<String>);
impl ser::Serializer for S {
    type Ok = V; type Error = E; type SerializeSeq = Sq; type SerializeTuple = Sq; type SerializeTupleStruct = Sq; type SerializeTupleVariant = Sq; type SerializeMap = Mp; type SerializeStruct = St; type SerializeStructVariant = St;
    // the value tree shows a value the way a compact binary format (the bridge's bincode) sees it
    fn is_human_readable(&self) -> bool { false }
    fn serialize_bool(self, v: bool) -> Result<V, E> { Ok(V::Bool(v)) }
    fn serialize_i8(self, v: i8) -> Result<V, E> { Ok(V::I(v as i128)) } fn serialize_i16(self, v: i16) -> Result<V, E> { Ok(V::I(v as i128)) } fn serialize_i32(self, v: i32) -> Result<V, E> { Ok(V::I(v as i128)) } fn serialize_i64(self, v: i64) -> Result<V, E> { Ok(V::I(v as i128)) } fn serialize_i128(self, v: i128) -> Result<V, E> { Ok(V::I(v)) }
    fn serialize_u8(self, v: u8) -> Result<V, E> { Ok(V::U(v as u128)) } fn serialize_u16(self, v: u16) -> Result<V, E> { Ok(V::U(v as u128)) } fn serialize_u32(self, v: u32) -> Result<V, E> { Ok(V::U(v as u128)) } fn serialize_u64(self, v: u64) -> Result<V, E> { Ok(V::U(v as u128)) } fn serialize_u128(self, v: u128) -> Result<V, E> { Ok(V::U(v)) }
    fn serialize_f32(self, v: f32) -> Result<V, E> { Ok(V::F32(v.to_bits())) } fn serialize_f64(self, v: f64) -> Result<V, E> { Ok(V::F64(v.to_bits())) }
    fn serialize_char(self, v: char) -> Result<V, E> { Ok(V::Char(v)) } fn serialize_str(self, v: &str) -> Result<V, E> { Ok(V::Str(v.into())) } fn serialize_bytes(self, v: &[u8]) -> Result<V, E> { Ok(V::Bytes(v.into())) }
    fn serialize_none(self) -> Result<V, E> { Ok(V::None) } fn serialize_some<T: Serialize + ?Sized>(self, v: &T) -> Result<V, E> { Ok(V::Some(Box::new(v.serialize(S)?))) }
    fn serialize_unit(self) -> Result<V, E> { Ok(V::Unit) } fn serialize_unit_struct(self, _: &'static str) -> Result<V, E> { Ok(V::Unit) }
    fn serialize_unit_variant(self, _: &'static str, _: u32, variant: &'static str) -> Result<V, E> { Ok(V::Variant(variant.into(), Box::new(V::Unit))) }
    fn serialize_newtype_struct<T: Serialize + ?Sized>(self, _: &'static str, v: &T) -> Result<V, E> { v.serialize(S) }
    fn serialize_newtype_variant<T: Serialize + ?Sized>(self, _: &'static str, _: u32, variant: &'static str, v: &T) -> Result<V, E> { Ok(V::Variant(variant.into(), Box::new(v.serialize(S)?))) }
    fn serialize_seq(self, _: Option<usize>) -> Result<Sq, E> { Ok(Sq(vec![], None, false)) } fn serialize_tuple(self, _: usize) -> Result<Sq, E> { Ok(Sq(vec![], None, true)) } fn serialize_tuple_struct(self, _: &'static str, _: usize) -> Result<Sq, E> { Ok(Sq(vec![], None, true)) }
    fn serialize_tuple_variant(self, _: &'static str, _: u32, variant: &'static str, _: usize) -> Result<Sq, E> { Ok(Sq(vec![], Some(variant.into()), true)) }
    fn serialize_map(self, _: Option<usize>) -> Result<Mp, E> { Ok(Mp(vec![], None)) }
    fn serialize_struct(self, _: &'static str, _: usize) -> Result<St, E> { Ok(St(vec![], None)) } fn serialize_struct_variant(self, _: &'static str, _: u32, variant: &'static str, _: usize) -> Result<St, E> { Ok(St(vec![], Some(variant.into()))) }
}
impl Sq { fn fin(self) -> V { let inner = if self.2 { V::Tuple(self.0) } else { V::Seq(self.0) }; match self.1 { Some(v) => V::Variant(v, Box::new(inner)), None => inner } } }
impl ser::SerializeSeq for Sq { type Ok = V; type Error = E; fn serialize_element<T: Serialize + ?Sized>(&mut self, v: &T) -> Result<(), E> { self.0.push(v.serialize(S)?); Ok(()) } fn end(self) -> Result<V, E> { Ok(self.fin()) } }
impl ser::SerializeTuple for Sq { type Ok = V; type Error = E; fn serialize_element<T: Serialize + ?Sized>(&mut self, v: &T) -> Result<(), E> { self.0.push(v.serialize(S)?); Ok(()) } fn end(self) -> Result<V, E> { Ok(self.fin()) } }
impl ser::SerializeTupleStruct for Sq { type Ok = V; type Error = E; fn serialize_field<T: Serialize + ?Sized>(&mut self, v: &T) -> Result<(), E> { self.0.push(v.serialize(S)?); Ok(()) } fn end(self) -> Result<V, E> { Ok(self.fin()) } }
impl ser::SerializeTupleVariant for Sq { type Ok = V; type Error = E; fn serialize_field<T: Serialize + ?Sized>(&mut self, v: &T) -> Result<(), E> { self.0.push(v.serialize(S)?); Ok(()) } fn end(self) -> Result<V, E> { Ok(self.fin()) } }
impl ser::SerializeMap for Mp { type Ok = V; type Error = E; fn serialize_key<T: Serialize + ?Sized>(&mut self, k: &T) -> Result<(), E> { self.1 = Some(k.serialize(S)?); Ok(()) } fn serialize_value<T: Serialize + ?Sized>(&mut self, v: &T) -> Result<(), E> { let k = self.1.take().unwrap(); self.0.push((k, v.serialize(S)?)); Ok(()) } fn end(self) -> Result<V, E> { Ok(V::Map(self.0)) } }
impl St { fn fin(self) -> V { match self.1 { Some(v) => V::Variant(v, Box::new(V::Struct(self.0))), None => V::Struct(self.0) } } }
impl ser::SerializeStruct for St { type Ok = V; type Error = E; fn serialize_field<T: Serialize + ?Sized>(&mut self, k: &'static str, v: &T) -> Result<(), E> { self.0.push((k.into(), v.serialize(S)?)); Ok(()) } fn end(self) -> Result<V, E> { Ok(self.fin()) } }
impl ser::SerializeStructVariant for St { type Ok = V; type Error = E; fn serialize_field<T: Serialize + ?Sized>(&mut self, k: &'static str, v: &T) -> Result<(), E> { self.0.push((k.into(), v.serialize(S)?)); Ok(()) } fn end(self) -> Result<V, E> { Ok(self.fin()) } }
