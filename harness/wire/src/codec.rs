//! An independent implementation of the wire format the generated shell code speaks: bincode with
//! fixed-width little-endian integers, u64 lengths, u32 variant indices, u8 option tags, UTF-8
//! strings — driven by a serde-reflection registry, not by serde derive output.
use crate::value::V;
use serde_reflection::{ContainerFormat as CF, Format as F, Named, Registry, VariantFormat as VF};
pub struct Rd<'a> { pub b: &'a [u8], pub i: usize }
impl<'a> Rd<'a> { fn take(&mut self, n: usize) -> Result<&'a [u8], String> { if self.i + n > self.b.len() { return Err("eof".into()); } let s = &self.b[self.i..self.i + n]; self.i += n; Ok(s) }
    fn u(&mut self, n: usize) -> Result<u128, String> { let s = self.take(n)?; let mut v = 0u128; for (k, x) in s.iter().enumerate() { v |= (*x as u128) << (8 * k); } Ok(v) }
    fn len(&mut self) -> Result<usize, String> { let l = self.u(8)?; if l > self.b.len() as u128 * 8 + 64 { return Err("length".into()); } Ok(l as usize) } }
fn sx(v: u128, bits: u32) -> i128 { let sh = 128 - bits; ((v << sh) as i128) >> sh }
pub fn dec_f(reg: &Registry, f: &F, r: &mut Rd) -> Result<V, String> { Ok(match f {
    F::TypeName(n) => dec_c(reg, n, r)?, F::Unit => V::Unit, F::Bool => match r.u(1)? { 0 => V::Bool(false), 1 => V::Bool(true), _ => return Err("bool".into()) },
    F::I8 => V::I(sx(r.u(1)?, 8)), F::I16 => V::I(sx(r.u(2)?, 16)), F::I32 => V::I(sx(r.u(4)?, 32)), F::I64 => V::I(sx(r.u(8)?, 64)), F::I128 => V::I(r.u(16)? as i128),
    F::U8 => V::U(r.u(1)?), F::U16 => V::U(r.u(2)?), F::U32 => V::U(r.u(4)?), F::U64 => V::U(r.u(8)?), F::U128 => V::U(r.u(16)?),
    F::F32 => V::F32(r.u(4)? as u32), F::F64 => V::F64(r.u(8)? as u64),
    F::Char => { let first = r.u(1)? as u8; let n = if first < 0x80 { 1 } else if first >> 5 == 6 { 2 } else if first >> 4 == 14 { 3 } else if first >> 3 == 30 { 4 } else { return Err("char".into()) }; let mut buf = vec![first]; buf.extend_from_slice(r.take(n - 1)?); V::Char(std::str::from_utf8(&buf).map_err(|_| "char utf8")?.chars().next().unwrap()) }
    F::Str => { let n = r.len()?; V::Str(std::str::from_utf8(r.take(n)?).map_err(|_| "utf8")?.to_string()) }
    F::Bytes => { let n = r.len()?; V::Bytes(r.take(n)?.to_vec()) }
    F::Option(i) => match r.u(1)? { 0 => V::None, 1 => V::Some(Box::new(dec_f(reg, i, r)?)), _ => return Err("option tag".into()) },
    F::Seq(i) => { let n = r.len()?; let mut v = vec![]; for _ in 0..n { v.push(dec_f(reg, i, r)?); } V::Seq(v) }
    F::Map { key, value } => { let n = r.len()?; let mut v = vec![]; for _ in 0..n { let k = dec_f(reg, key, r)?; v.push((k, dec_f(reg, value, r)?)); } V::Map(v) }
    F::Tuple(fs) => V::Tuple(fs.iter().map(|f| dec_f(reg, f, r)).collect::<Result<_, _>>()?),
    F::TupleArray { content, size } => V::Tuple((0..*size).map(|_| dec_f(reg, content, r)).collect::<Result<_, _>>()?),
    F::Variable(_) => return Err("variable".into()) }) }
fn dec_named(reg: &Registry, fs: &[Named<F>], r: &mut Rd) -> Result<V, String> { Ok(V::Struct(fs.iter().map(|n| Ok((n.name.clone(), dec_f(reg, &n.value, r)?))).collect::<Result<_, String>>()?)) }
pub fn dec_c(reg: &Registry, name: &str, r: &mut Rd) -> Result<V, String> { Ok(match reg.get(name).ok_or(format!("registry has no {name}"))? {
    CF::UnitStruct => V::Unit, CF::NewTypeStruct(f) => dec_f(reg, f, r)?, CF::TupleStruct(fs) => V::Tuple(fs.iter().map(|f| dec_f(reg, f, r)).collect::<Result<_, _>>()?), CF::Struct(fs) => dec_named(reg, fs, r)?,
    CF::Enum(vs) => { let ix = r.u(4)? as u32; let v = vs.get(&ix).ok_or(format!("{name}: variant index {ix}"))?; V::Variant(v.name.clone(), Box::new(match &v.value { VF::Unit => V::Unit, VF::NewType(f) => dec_f(reg, f, r)?, VF::Tuple(fs) => V::Tuple(fs.iter().map(|f| dec_f(reg, f, r)).collect::<Result<_, _>>()?), VF::Struct(fs) => dec_named(reg, fs, r)?, VF::Variable(_) => return Err("variable".into()) })) } }) }
fn pu(o: &mut Vec<u8>, v: u128, n: usize) { for k in 0..n { o.push((v >> (8 * k)) as u8); } }
pub fn enc_f(reg: &Registry, f: &F, v: &V, o: &mut Vec<u8>) -> Result<(), String> { match (f, v) {
    (F::TypeName(n), v) => enc_c(reg, n, v, o)?, (F::Unit, V::Unit) => {}, (F::Bool, V::Bool(b)) => o.push(*b as u8),
    (F::I8, V::I(x)) => pu(o, *x as u128, 1), (F::I16, V::I(x)) => pu(o, *x as u128, 2), (F::I32, V::I(x)) => pu(o, *x as u128, 4), (F::I64, V::I(x)) => pu(o, *x as u128, 8), (F::I128, V::I(x)) => pu(o, *x as u128, 16),
    (F::U8, V::U(x)) => pu(o, *x, 1), (F::U16, V::U(x)) => pu(o, *x, 2), (F::U32, V::U(x)) => pu(o, *x, 4), (F::U64, V::U(x)) => pu(o, *x, 8), (F::U128, V::U(x)) => pu(o, *x, 16),
    (F::F32, V::F32(x)) => pu(o, *x as u128, 4), (F::F64, V::F64(x)) => pu(o, *x as u128, 8), (F::Char, V::Char(c)) => { let mut b = [0u8; 4]; o.extend_from_slice(c.encode_utf8(&mut b).as_bytes()) }
    (F::Str, V::Str(s)) => { pu(o, s.len() as u128, 8); o.extend_from_slice(s.as_bytes()) } (F::Bytes, V::Bytes(b)) => { pu(o, b.len() as u128, 8); o.extend_from_slice(b) }
    (F::Option(_), V::None) => o.push(0), (F::Option(i), V::Some(x)) => { o.push(1); enc_f(reg, i, x, o)? }
    (F::Seq(i), V::Seq(xs)) => { pu(o, xs.len() as u128, 8); for x in xs { enc_f(reg, i, x, o)? } }
    (F::Map { key, value }, V::Map(xs)) => { pu(o, xs.len() as u128, 8); for (k, x) in xs { enc_f(reg, key, k, o)?; enc_f(reg, value, x, o)? } }
    (F::Tuple(fs), V::Tuple(xs)) if fs.len() == xs.len() => for (f, x) in fs.iter().zip(xs) { enc_f(reg, f, x, o)? },
    (F::TupleArray { content, size }, V::Tuple(xs)) if *size == xs.len() => for x in xs { enc_f(reg, content, x, o)? },
    (f, v) => return Err(format!("shape mismatch {f:?} vs {v:?}")) } Ok(()) }
fn enc_named(reg: &Registry, fs: &[Named<F>], v: &V, o: &mut Vec<u8>) -> Result<(), String> { let V::Struct(xs) = v else { return Err("struct expected".into()) }; if xs.len() != fs.len() { return Err("field count".into()) } for (f, (n, x)) in fs.iter().zip(xs) { if &f.name != n { return Err(format!("field {} vs {}", f.name, n)) } enc_f(reg, &f.value, x, o)? } Ok(()) }
pub fn enc_c(reg: &Registry, name: &str, v: &V, o: &mut Vec<u8>) -> Result<(), String> { match (reg.get(name).ok_or(format!("registry has no {name}"))?, v) {
    (CF::UnitStruct, V::Unit) => {}, (CF::NewTypeStruct(f), v) => enc_f(reg, f, v, o)?, (CF::TupleStruct(fs), V::Tuple(xs)) if fs.len() == xs.len() => for (f, x) in fs.iter().zip(xs) { enc_f(reg, f, x, o)? }, (CF::Struct(fs), v) => enc_named(reg, fs, v, o)?,
    (CF::Enum(vs), V::Variant(vn, p)) => { let (ix, vf) = vs.iter().find(|(_, n)| &n.name == vn).ok_or(format!("{name}: no variant {vn}"))?; pu(o, *ix as u128, 4); match (&vf.value, &**p) { (VF::Unit, V::Unit) => {}, (VF::NewType(f), x) => enc_f(reg, f, x, o)?, (VF::Tuple(fs), V::Tuple(xs)) if fs.len() == xs.len() => for (f, x) in fs.iter().zip(xs) { enc_f(reg, f, x, o)? }, (VF::Struct(fs), x) => enc_named(reg, fs, x, o)?, _ => return Err("variant payload".into()) } }
    (c, v) => return Err(format!("container mismatch {c:?} vs {v:?}")) } Ok(()) }
