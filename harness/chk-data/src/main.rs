//! Data properties: C10, C14–C19 (see /verif/DESIGN.md §7).

use chk_data::{c10, c11, c14, c15, c16, c17, c18, c19};

fn main() {
    let args: Vec<String> = std::env::args().collect();
    if args.len() == 4 && args[1] == "C11" && args[2] == "--emit-digest" {
        c11::emit_digest(&args[3]);
        return;
    }
    let (prop, mode) = vkit::parse_args();
    match prop.as_str() {
        "C10" => c10::main(mode),
        "C11" => c11::main(mode),
        "C14" => c14::main(mode),
        "C15" => c15::main(mode),
        "C16" => c16::main(mode),
        "C17" => c17::main(mode),
        "C18" => c18::main(mode),
        "C19" => c19::main(mode),
        other => {
            eprintln!("chk-data does not implement {other}");
            std::process::exit(2)
        }
    }
}
