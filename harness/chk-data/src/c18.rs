//! C18 — every timer has a unique id and at most one outcome.
//!
//! Generated: 1–3 command-API timers (notify_after / notify_at) run concurrently under
//! `Command::all`, and an interleaving of shell/app actions. Oracle: a per-timer automaton
//! written from the property statement.

use crux_core::{Command, Request};
use crux_time::command::{Time, TimerHandle, TimerOutcome};
use crux_time::{TimeRequest, TimeResponse, TimerId};
use proptest::prelude::*;
use serde::{Deserialize, Serialize};
use std::collections::HashSet;
use std::sync::Mutex;
use std::time::Duration;
use vkit::{panics::catch, Mode, Outcome, Report, Stats};

pub enum Effect {
    Time(Request<TimeRequest>),
}
impl From<Request<TimeRequest>> for Effect {
    fn from(r: Request<TimeRequest>) -> Self {
        Effect::Time(r)
    }
}
#[derive(Debug, PartialEq)]
pub enum Event {
    Out(usize, TimerOutcome),
}

#[derive(Debug, Clone, Copy, PartialEq, Eq, Hash, Serialize, Deserialize)]
pub enum Act {
    /// let the command run (effects()/events())
    Poll,
    /// the shell answers the timer's notify request
    Fire(u8),
    /// the app clears the timer through its handle
    Clear(u8),
    DropHandle(u8),
    /// the shell drops the notify request unanswered
    DropRequest(u8),
    /// the shell answers the Clear request
    AnswerClear(u8),
    DropClearRequest(u8),
    /// a second answer to the (already answered) notify request
    LateFire(u8),
}

#[derive(Debug, Clone, PartialEq, Eq, Hash, Serialize, Deserialize)]
pub struct Case {
    /// true = notify_after, false = notify_at
    pub timers: Vec<bool>,
    pub acts: Vec<Act>,
}

#[derive(Debug, Clone, Copy, PartialEq)]
enum St {
    Created,
    Requested,
    ClearRequested,
    Completed,
    Cleared,
    Dead,
}

struct M {
    st: St,
    clear_sent: bool,
    handle_gone: bool,
    answer_waiting: bool,
    req_dropped: bool,
    clear_answer_waiting: bool,
    clear_req_dropped: bool,
}

/// every timer id ever seen in this process (ids must be unique process-wide)
static ALL_IDS: Mutex<Option<HashSet<usize>>> = Mutex::new(None);

#[derive(Default)]
pub struct Info {
    pub both_clear_and_fire: bool,
    pub timers: usize,
}

type Builder = Box<dyn FnOnce(usize) -> Command<Effect, Event>>;
fn build(after: bool) -> (Builder, TimerHandle) {
    if after {
        let (b, h) = Time::<Effect, Event>::notify_after(Duration::from_secs(1));
        (Box::new(move |i| b.then_send(move |o| Event::Out(i, o))), h)
    } else {
        let (b, h) = Time::<Effect, Event>::notify_at(std::time::SystemTime::UNIX_EPOCH + Duration::from_secs(5));
        (Box::new(move |i| b.then_send(move |o| Event::Out(i, o))), h)
    }
}

pub fn run(case: &Case) -> Result<Info, String> {
    let nt = case.timers.len().clamp(1, 3);
    let mut handles: Vec<Option<TimerHandle>> = vec![];
    let mut cmds = vec![];
    for (i, after) in case.timers.iter().take(nt).enumerate() {
        let (b, h) = build(*after);
        handles.push(Some(h));
        cmds.push(b(i));
    }
    let mut cmd: Command<Effect, Event> = Command::all(cmds);
    let mut model: Vec<M> = (0..nt).map(|_| M { st: St::Created, clear_sent: false, handle_gone: false, answer_waiting: false, req_dropped: false, clear_answer_waiting: false, clear_req_dropped: false }).collect();
    let mut ids: Vec<Option<TimerId>> = vec![None; nt];
    let mut reqs: Vec<Option<Request<TimeRequest>>> = (0..nt).map(|_| None).collect();
    let mut clear_reqs: Vec<Option<Request<TimeRequest>>> = (0..nt).map(|_| None).collect();
    let mut spent: Vec<Option<Request<TimeRequest>>> = (0..nt).map(|_| None).collect();
    let mut outcomes: Vec<Vec<&'static str>> = vec![vec![]; nt];
    let mut want: Vec<Vec<&'static str>> = vec![vec![]; nt];
    let mut fired = vec![false; nt];
    let mut cleared = vec![false; nt];
    let mut acts = case.acts.clone();
    acts.push(Act::Poll);
    for a in acts {
        let t = |k: u8| k as usize % nt;
        match a {
            Act::Poll => {
                let (effs, evs) = catch(|| {
                    let effs: Vec<Effect> = cmd.effects().collect();
                    let evs: Vec<Event> = cmd.events().collect();
                    (effs, evs)
                })
                .map_err(|m| format!("the timer command panicked: {m}"))?;
                let mut want_effs: Vec<String> = vec![];
                for (i, m) in model.iter_mut().enumerate() {
                    loop {
                        match m.st {
                            St::Created => {
                                if m.clear_sent {
                                    m.st = St::Cleared;
                                    want[i].push("Cleared");
                                } else {
                                    m.st = St::Requested;
                                    want_effs.push(format!("notify{i}"));
                                    continue;
                                }
                            }
                            St::Requested => {
                                if m.answer_waiting {
                                    m.st = St::Completed;
                                    want[i].push("Completed");
                                } else if m.clear_sent {
                                    m.st = St::ClearRequested;
                                    want_effs.push(format!("clear{i}"));
                                    continue;
                                } else if m.req_dropped && m.handle_gone {
                                    m.st = St::Dead;
                                }
                            }
                            St::ClearRequested => {
                                if m.clear_answer_waiting {
                                    m.st = St::Cleared;
                                    want[i].push("Cleared");
                                } else if m.clear_req_dropped {
                                    m.st = St::Dead;
                                }
                            }
                            _ => {}
                        }
                        break;
                    }
                }
                let mut got: Vec<(TimerId, bool, Request<TimeRequest>)> = vec![];
                for Effect::Time(req) in effs {
                    match &req.operation {
                        TimeRequest::NotifyAfter { id, .. } | TimeRequest::NotifyAt { id, .. } => got.push((*id, false, req)),
                        TimeRequest::Clear { id } => got.push((*id, true, req)),
                        other => return Err(format!("unexpected time request {other:?}")),
                    }
                }
                got.sort_by_key(|(id, c, _)| (id.0, *c));
                let mut got_names = vec![];
                for (id, is_clear, req) in got {
                    if is_clear {
                        match ids.iter().position(|x| *x == Some(id)) {
                            Some(i) => {
                                got_names.push(format!("clear{i}"));
                                clear_reqs[i] = Some(req);
                            }
                            None => return Err(format!("a Clear request for id {}, which no timer of this command was given", id.0)),
                        }
                    } else {
                        if !ALL_IDS.lock().unwrap().get_or_insert_with(HashSet::new).insert(id.0) {
                            return Err(format!("timer id {} was handed out twice in this process", id.0));
                        }
                        // ids are allocated at creation, in creation order
                        match (0..nt).find(|&i| ids[i].is_none() && want_effs.contains(&format!("notify{i}"))) {
                            Some(i) => {
                                ids[i] = Some(id);
                                got_names.push(format!("notify{i}"));
                                reqs[i] = Some(req);
                            }
                            None => return Err(format!("an unexpected notify request (id {})", id.0)),
                        }
                    }
                }
                got_names.sort();
                want_effs.sort();
                if got_names != want_effs {
                    return Err(format!("time requests seen by the shell: {got_names:?}, the statement's automaton gives {want_effs:?}"));
                }
                for Event::Out(i, o) in evs {
                    outcomes[i].push(match o {
                        TimerOutcome::Completed(_) => "Completed",
                        TimerOutcome::Cleared => "Cleared",
                    });
                }
                if outcomes != want {
                    return Err(format!("timer outcomes {outcomes:?}, the statement's automaton gives {want:?}"));
                }
            }
            Act::Fire(k) => {
                let i = t(k);
                if let (Some(mut q), Some(id)) = (reqs[i].take(), ids[i]) {
                    let resp = match q.operation {
                        TimeRequest::NotifyAfter { .. } => TimeResponse::DurationElapsed { id },
                        _ => TimeResponse::InstantArrived { id },
                    };
                    match catch(|| q.resolve(resp)) {
                        Err(m) => return Err(format!("answering a timer panicked: {m}")),
                        Ok(Err(e)) => return Err(format!("the first answer to a timer request was rejected: {e}")),
                        Ok(Ok(())) => {}
                    }
                    if model[i].st == St::Requested {
                        model[i].answer_waiting = true;
                    }
                    spent[i] = Some(q);
                    fired[i] = true;
                }
            }
            Act::LateFire(k) => {
                let i = t(k);
                if let (Some(q), Some(id)) = (spent[i].as_mut(), ids[i]) {
                    let resp = match q.operation {
                        TimeRequest::NotifyAfter { .. } => TimeResponse::DurationElapsed { id },
                        _ => TimeResponse::InstantArrived { id },
                    };
                    match catch(|| q.resolve(resp)) {
                        Err(m) => return Err(format!("a duplicate answer panicked: {m}")),
                        Ok(Ok(())) => return Err("a second answer to a one-shot timer request was accepted".into()),
                        Ok(Err(_)) => {}
                    }
                }
            }
            Act::Clear(k) => {
                let i = t(k);
                if let Some(h) = handles[i].take() {
                    h.clear();
                    if matches!(model[i].st, St::Created | St::Requested) {
                        model[i].clear_sent = true;
                    }
                    model[i].handle_gone = true;
                    cleared[i] = true;
                }
            }
            Act::DropHandle(k) => {
                let i = t(k);
                if let Some(h) = handles[i].take() {
                    drop(h);
                    model[i].handle_gone = true;
                }
            }
            Act::DropRequest(k) => {
                let i = t(k);
                if let Some(q) = reqs[i].take() {
                    drop(q);
                    if model[i].st == St::Requested {
                        model[i].req_dropped = true;
                    }
                }
            }
            Act::AnswerClear(k) => {
                let i = t(k);
                if let (Some(mut q), Some(id)) = (clear_reqs[i].take(), ids[i]) {
                    match catch(|| q.resolve(TimeResponse::Cleared { id })) {
                        Err(m) => return Err(format!("answering a Clear request panicked: {m}")),
                        Ok(Err(e)) => return Err(format!("the answer to a Clear request was rejected: {e}")),
                        Ok(Ok(())) => {}
                    }
                    if model[i].st == St::ClearRequested {
                        model[i].clear_answer_waiting = true;
                    }
                }
            }
            Act::DropClearRequest(k) => {
                let i = t(k);
                if let Some(q) = clear_reqs[i].take() {
                    drop(q);
                    if model[i].st == St::ClearRequested {
                        model[i].clear_req_dropped = true;
                    }
                }
            }
        }
    }
    Ok(Info { both_clear_and_fire: (0..nt).any(|i| fired[i] && cleared[i]), timers: nt })
}

pub fn strategy() -> BoxedStrategy<Case> {
    let act = prop_oneof![
        6 => Just(Act::Poll),
        3 => (0u8..3).prop_map(Act::Fire),
        3 => (0u8..3).prop_map(Act::Clear),
        1 => (0u8..3).prop_map(Act::DropHandle),
        1 => (0u8..3).prop_map(Act::DropRequest),
        2 => (0u8..3).prop_map(Act::AnswerClear),
        1 => (0u8..3).prop_map(Act::DropClearRequest),
        1 => (0u8..3).prop_map(Act::LateFire),
    ];
    (prop::collection::vec(any::<bool>(), 1..4), prop::collection::vec(act, 0..20)).prop_map(|(timers, acts)| Case { timers, acts }).boxed()
}

pub fn main(mode: Mode) {
    let prop = "C18";
    let stats = Stats::new();
    let check = |c: &Case| -> Result<(), String> {
        let info = run(c)?;
        let nt = info.both_clear_and_fire || (info.timers >= 2 && c.acts.len() >= 6);
        stats.case(c, nt, &[if info.both_clear_and_fire { "clear+fire" } else { "other" }, match info.timers { 1 => "timers:1", 2 => "timers:2", _ => "timers:3" }]);
        if info.both_clear_and_fire && stats.wants_sample() {
            stats.sample(|| serde_json::to_value(c).unwrap());
        }
        Ok(())
    };
    match mode {
        Mode::Replay(path) => {
            let res = vkit::read_replay(&path).and_then(|v| serde_json::from_value::<Case>(v).map_err(|e| e.to_string())).and_then(|c| check(&c));
            vkit::finish_replay(prop, &path, res)
        }
        Mode::Run(tier) => {
            let started = std::time::Instant::now();
            let mut replayed = 0;
            for f in vkit::replay_files(prop) {
                replayed += 1;
                if let Err(why) = vkit::read_replay(&f).and_then(|v| serde_json::from_value::<Case>(v).map_err(|e| e.to_string())).and_then(|c| check(&c)) {
                    println!("why: {why}");
                    println!("VIOLATION property={prop} replay={}", f.display());
                    std::process::exit(1);
                }
            }
            let outcome = vkit::run_prop(prop, vkit::workers_for(tier), tier.pick(3_000, 300_000), strategy, check);
            let outcome = match outcome {
                Outcome::Held if stats.distinct_nontrivial() < 2 => Outcome::Inconclusive("generator produced no non-trivial case".into()),
                o => o,
            };
            vkit::finish(
                Report {
                    prop,
                    tier,
                    rule: "1-3 command-API timers (notify_after / notify_at) under Command::all and up to 20 actions drawn from {poll, fire, clear, drop handle, drop request, answer clear, drop clear request, duplicate fire}; the observed TimeRequest effects and TimerOutcome events must be a run of the per-timer automaton written from the property statement, and ids must be unique across all timers created in the process; non-trivial = some timer saw both a clear and a fire, or >= 2 timers with >= 6 actions; distinct = distinct (timer kinds, action list)",
                    assumptions: vec!["responses have the kind matching the request (a mismatching kind is a documented developer error that panics)".into(), "command API on the direct host; the legacy Time capability is covered separately".into()],
                    started,
                    replayed,
                },
                &stats,
                outcome,
            )
        }
    }
}
