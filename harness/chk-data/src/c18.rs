//! C18 — every timer has a unique id and at most one outcome.
//!
//! Generated: 1–3 command-API timers (notify_after / notify_at) run concurrently under
//! `Command::all`, and an interleaving of shell/app actions. Oracle: a per-timer automaton
//! written from the property statement.

use crux_core::{Command, Request};
use crux_time::command::{Time, TimerHandle, TimerOutcome};
use crux_time::{TimeRequest, TimeResponse, TimerId};
use proptest::prelude::*;
use serde::{Deserialize, Serialize};
use std::collections::HashSet;
use std::sync::Mutex;
use std::time::Duration;
use vkit::{panics::catch, Mode, Outcome, Report, Stats};

pub enum Effect {
    Time(Request<TimeRequest>),
}
impl From<Request<TimeRequest>> for Effect {
    fn from(r: Request<TimeRequest>) -> Self {
        Effect::Time(r)
    }
}
#[derive(Debug, PartialEq)]
pub enum Event {
    Out(usize, TimerOutcome),
}

#[derive(Debug, Clone, Copy, PartialEq, Eq, Hash, Serialize, Deserialize)]
pub enum Act {
    /// let the command run (effects()/events())
    Poll,
    /// the shell answers the timer's notify request
    Fire(u8),
    /// the app clears the timer through its handle
    Clear(u8),
    DropHandle(u8),
    /// the shell drops the notify request unanswered
    DropRequest(u8),
    /// the shell answers the Clear request
    AnswerClear(u8),
    DropClearRequest(u8),
    /// a second answer to the (already answered) notify request
    LateFire(u8),
    /// the task that holds a deferred timer future goes on to poll it for the first time
    OpenGate(u8),
}

#[derive(Debug, Clone, PartialEq, Eq, Hash, Serialize, Deserialize)]
pub struct Case {
    /// true = notify_after, false = notify_at
    pub timers: Vec<bool>,
    pub acts: Vec<Act>,
    /// how each timer is run: 0 = `builder.then_send(..)`; 1 = `builder.into_future(ctx).await` in a
    /// `Command::new` task; 2 = the future is created with `into_future`, the task then waits for
    /// something else (a gate the schedule opens) and only afterwards polls the timer for the first time
    #[serde(default)]
    pub styles: Vec<u8>,
    /// a history on a `Core` whose app uses the legacy `Time` capability (run in the same process,
    /// so that ids are compared across the two APIs)
    #[serde(default)]
    pub legacy: Vec<LAct>,
}

/// actions of the legacy-capability history; every one is a call into the core
#[derive(Debug, Clone, Copy, PartialEq, Eq, Hash, Serialize, Deserialize)]
pub enum LAct {
    /// update starts a timer (true = notify_after, false = notify_at)
    Start(bool),
    /// update starts a timer and clears it in the same update (cleared before it was ever requested)
    StartAndClear(bool),
    /// the shell answers the timer's request
    Fire(u8),
    /// the app clears the timer by id
    Clear(u8),
    /// the shell drops the timer's request unanswered
    DropRequest(u8),
    /// a second answer to an answered request
    LateFire(u8),
    /// n timer ids are handed out to timers that are never run (the process-wide counter moves on): later
    /// timers of this history are numbered n further away from the earlier ones
    Pad(u8),
}

pub mod legacy {
    //! the legacy `Time` capability on a `Core` (property clauses that do not depend on the handle-based API)
    use super::{LAct, ALL_IDS};
    use crux_core::macros::Effect;
    use crux_core::render::Render;
    use crux_core::{Command, Core, Request};
    use crux_time::{Time, TimeRequest, TimeResponse, TimerId};
    use std::collections::HashSet;
    use std::time::Duration;
    use vkit::panics::catch;

    pub enum Event {
        Start(bool),
        StartAndClear(bool),
        Clear(TimerId),
        Out(TimeResponse),
    }
    #[derive(Effect)]
    #[allow(dead_code)]
    pub struct Capabilities {
        pub time: Time<Event>,
        pub render: Render<Event>,
    }
    #[derive(Default)]
    pub struct App;
    #[derive(Default, Clone, serde::Serialize)]
    pub struct Model {
        pub ids: Vec<TimerId>,
        pub outcomes: Vec<(TimerId, &'static str)>,
    }
    impl crux_core::App for App {
        type Event = Event;
        type Model = Model;
        type ViewModel = Model;
        type Capabilities = Capabilities;
        type Effect = Effect;
        fn update(&self, ev: Event, m: &mut Model, caps: &Capabilities) -> Command<Effect, Event> {
            let start = |after: bool| {
                if after {
                    caps.time.notify_after(Duration::from_secs(2), Event::Out)
                } else {
                    caps.time.notify_at(std::time::SystemTime::UNIX_EPOCH + Duration::from_secs(7), Event::Out)
                }
            };
            match ev {
                Event::Start(after) => m.ids.push(start(after)),
                Event::StartAndClear(after) => {
                    let id = start(after);
                    m.ids.push(id);
                    caps.time.clear(id);
                }
                Event::Clear(id) => caps.time.clear(id),
                Event::Out(r) => m.outcomes.push(match r {
                    TimeResponse::DurationElapsed { id } | TimeResponse::InstantArrived { id } => (id, "Completed"),
                    TimeResponse::Cleared { id } => (id, "Cleared"),
                    TimeResponse::Now { .. } => (TimerId(usize::MAX), "Now"),
                }),
            }
            Command::done()
        }
        fn view(&self, m: &Model) -> Model {
            m.clone()
        }
    }

    struct T {
        id: TimerId,
        req: Option<Request<TimeRequest>>,
        spent: Option<Request<TimeRequest>>,
        cleared: bool,
        want: Option<&'static str>,
    }

    /// returns (timers started, some timer saw both a clear and a fire)
    pub fn run(acts: &[LAct]) -> Result<(usize, bool), String> {
        let core: Core<App> = Core::new();
        let mut timers: Vec<T> = vec![];
        let mut both = false;
        for a in acts {
            let pick = |k: u8, n: usize| k as usize % n;
            // what this call must hand to the shell: (is_clear, id or None for "the new timer")
            let mut want_clear: Option<TimerId> = None;
            let mut new_timer: Option<bool> = None; // Some(expects a notify request)
            let effects = match *a {
                LAct::Pad(n) => {
                    for _ in 0..n {
                        drop(crux_time::command::Time::<Effect, Event>::notify_after(Duration::from_secs(1)));
                    }
                    continue;
                }
                LAct::Start(after) => {
                    new_timer = Some(true);
                    catch(|| core.process_event(Event::Start(after))).map_err(|p| format!("starting a legacy timer panicked: {p}"))?
                }
                LAct::StartAndClear(after) => {
                    new_timer = Some(false);
                    catch(|| core.process_event(Event::StartAndClear(after))).map_err(|p| format!("starting and clearing a legacy timer panicked: {p}"))?
                }
                LAct::Clear(k) => {
                    if timers.is_empty() {
                        continue;
                    }
                    let i = pick(k, timers.len());
                    let id = timers[i].id;
                    want_clear = Some(id);
                    if timers[i].want.is_none() {
                        timers[i].cleared = true;
                    }
                    catch(|| core.process_event(Event::Clear(id))).map_err(|p| format!("clearing a legacy timer panicked: {p}"))?
                }
                LAct::Fire(k) => {
                    if timers.is_empty() {
                        continue;
                    }
                    let i = pick(k, timers.len());
                    let Some(mut req) = timers[i].req.take() else { continue };
                    let id = timers[i].id;
                    let resp = match req.operation {
                        TimeRequest::NotifyAfter { .. } => TimeResponse::DurationElapsed { id },
                        _ => TimeResponse::InstantArrived { id },
                    };
                    let r = catch(|| core.resolve(&mut req, resp)).map_err(|p| format!("answering a legacy timer panicked: {p}"))?;
                    let effects = r.map_err(|e| format!("the first answer to a legacy timer request was rejected: {e}"))?;
                    // the timer ran: cleared only if the app cleared it, completed only because the shell answered
                    if timers[i].cleared {
                        both = true;
                    }
                    timers[i].want = Some(if timers[i].cleared { "Cleared" } else { "Completed" });
                    timers[i].spent = Some(req);
                    effects
                }
                LAct::LateFire(k) => {
                    if timers.is_empty() {
                        continue;
                    }
                    let i = pick(k, timers.len());
                    let id = timers[i].id;
                    let Some(req) = timers[i].spent.as_mut() else { continue };
                    let resp = match req.operation {
                        TimeRequest::NotifyAfter { .. } => TimeResponse::DurationElapsed { id },
                        _ => TimeResponse::InstantArrived { id },
                    };
                    match catch(|| core.resolve(req, resp)).map_err(|p| format!("a duplicate answer to a legacy timer panicked: {p}"))? {
                        Ok(_) => return Err("a second answer to a legacy timer request was accepted".into()),
                        Err(_) => vec![],
                    }
                }
                LAct::DropRequest(k) => {
                    if timers.is_empty() {
                        continue;
                    }
                    let i = pick(k, timers.len());
                    timers[i].req = None;
                    vec![]
                }
            };
            // ---- the requests of this call
            let view = core.view();
            let mut seen_clear: Vec<TimerId> = vec![];
            let mut seen_notify: Vec<(TimerId, Request<TimeRequest>)> = vec![];
            for e in effects {
                if let Effect::Time(req) = e {
                    match &req.operation {
                        TimeRequest::NotifyAfter { id, .. } | TimeRequest::NotifyAt { id, .. } => seen_notify.push((*id, req)),
                        TimeRequest::Clear { id } => seen_clear.push(*id),
                        TimeRequest::Now => return Err("an unexpected Now request".into()),
                    }
                }
            }
            if let Some(expects_request) = new_timer {
                let Some(id) = view.ids.last().copied().filter(|_| view.ids.len() == timers.len() + 1) else { return Err("the app did not record the id of the timer it started".into()) };
                if !ALL_IDS.lock().unwrap().get_or_insert_with(HashSet::new).insert(id.0) {
                    return Err(format!("timer id {} was handed out twice in this process", id.0));
                }
                let mut t = T { id, req: None, spent: None, cleared: !expects_request, want: None };
                if expects_request {
                    match seen_notify.pop() {
                        Some((rid, req)) if rid == id && seen_notify.is_empty() => t.req = Some(req),
                        _ => return Err(format!("starting legacy timer {} did not send exactly one notify request carrying its id", id.0)),
                    }
                } else {
                    // cleared before it was ever requested: it never asks the shell to notify it, and reports cleared
                    if !seen_notify.is_empty() {
                        return Err(format!("legacy timer {} was cleared before it was ever requested, yet a notify request was sent", id.0));
                    }
                    t.want = Some("Cleared");
                    want_clear = Some(id);
                }
                timers.push(t);
            } else if !seen_notify.is_empty() {
                return Err("a notify request appeared although no timer was started".into());
            }
            match want_clear {
                Some(id) if seen_clear != vec![id] => return Err(format!("clearing legacy timer {} sent clear requests for {:?} (expected exactly one, for its id)", id.0, seen_clear.iter().map(|i| i.0).collect::<Vec<_>>())),
                None if !seen_clear.is_empty() => return Err(format!("a clear request for {:?} appeared although the app cleared nothing", seen_clear.iter().map(|i| i.0).collect::<Vec<_>>())),
                _ => {}
            }
            // ---- outcomes: at most one per timer, and exactly the expected one
            for t in &timers {
                let got: Vec<&'static str> = view.outcomes.iter().filter(|(id, _)| *id == t.id).map(|(_, o)| *o).collect();
                let want: Vec<&'static str> = t.want.into_iter().collect();
                if got != want {
                    return Err(format!("legacy timer {} reported {got:?}, expected {want:?} (answered: {}, cleared by the app: {})", t.id.0, t.spent.is_some(), t.cleared));
                }
            }
            if view.outcomes.iter().any(|(id, _)| !timers.iter().any(|t| t.id == *id)) {
                return Err("an outcome for a timer that was never started".into());
            }
        }
        Ok((timers.len(), both))
    }
}

#[derive(Debug, Clone, Copy, PartialEq)]
enum St {
    Created,
    Requested,
    ClearRequested,
    Completed,
    Cleared,
    Dead,
}

struct M {
    st: St,
    clear_sent: bool,
    handle_gone: bool,
    answer_waiting: bool,
    req_dropped: bool,
    clear_answer_waiting: bool,
    clear_req_dropped: bool,
    /// the timer's future can be polled (always, except for a deferred timer whose gate is still shut)
    gate_open: bool,
}

/// every timer id ever seen in this process (ids must be unique process-wide)
static ALL_IDS: Mutex<Option<HashSet<usize>>> = Mutex::new(None);

#[derive(Default)]
pub struct Info {
    pub both_clear_and_fire: bool,
    pub timers: usize,
    pub legacy_timers: usize,
    pub legacy_both: bool,
}

type Builder = Box<dyn FnOnce(usize) -> Command<Effect, Event>>;
type Gate = futures::channel::oneshot::Sender<()>;
fn build(after: bool, style: u8) -> (Builder, TimerHandle, Option<Gate>) {
    macro_rules! wrap {
        ($b:expr, $h:expr) => {{
            let (b, h) = ($b, $h);
            match style % 3 {
                0 => (Box::new(move |i| b.then_send(move |o| Event::Out(i, o))) as Builder, h, None),
                1 => (
                    Box::new(move |i| {
                        Command::new(move |ctx| async move {
                            let o = b.into_future(ctx.clone()).await;
                            ctx.send_event(Event::Out(i, o));
                        })
                    }) as Builder,
                    h,
                    None,
                ),
                _ => {
                    let (tx, rx) = futures::channel::oneshot::channel::<()>();
                    (
                        Box::new(move |i| {
                            Command::new(move |ctx| async move {
                                let timer = b.into_future(ctx.clone());
                                let _ = rx.await;
                                let o = timer.await;
                                ctx.send_event(Event::Out(i, o));
                            })
                        }) as Builder,
                        h,
                        Some(tx),
                    )
                }
            }
        }};
    }
    if after {
        let (b, h) = Time::<Effect, Event>::notify_after(Duration::from_secs(1));
        wrap!(b, h)
    } else {
        let (b, h) = Time::<Effect, Event>::notify_at(std::time::SystemTime::UNIX_EPOCH + Duration::from_secs(5));
        wrap!(b, h)
    }
}

pub fn run(case: &Case) -> Result<Info, String> {
    let nt = case.timers.len().clamp(1, 3);
    let mut handles: Vec<Option<TimerHandle>> = vec![];
    let mut cmds = vec![];
    let mut gates: Vec<Option<Gate>> = vec![];
    for (i, after) in case.timers.iter().take(nt).enumerate() {
        let (b, h, g) = build(*after, case.styles.get(i).copied().unwrap_or(0));
        handles.push(Some(h));
        gates.push(g);
        cmds.push(b(i));
    }
    let mut cmd: Command<Effect, Event> = Command::all(cmds);
    let mut model: Vec<M> = (0..nt).map(|i| M { st: St::Created, clear_sent: false, handle_gone: false, answer_waiting: false, req_dropped: false, clear_answer_waiting: false, clear_req_dropped: false, gate_open: gates[i].is_none() }).collect();
    let mut ids: Vec<Option<TimerId>> = vec![None; nt];
    let mut reqs: Vec<Option<Request<TimeRequest>>> = (0..nt).map(|_| None).collect();
    let mut clear_reqs: Vec<Option<Request<TimeRequest>>> = (0..nt).map(|_| None).collect();
    let mut spent: Vec<Option<Request<TimeRequest>>> = (0..nt).map(|_| None).collect();
    let mut outcomes: Vec<Vec<&'static str>> = vec![vec![]; nt];
    let mut want: Vec<Vec<&'static str>> = vec![vec![]; nt];
    let mut fired = vec![false; nt];
    let mut cleared = vec![false; nt];
    let mut acts = case.acts.clone();
    acts.push(Act::Poll);
    for a in acts {
        let t = |k: u8| k as usize % nt;
        match a {
            Act::Poll => {
                let (effs, evs) = catch(|| {
                    let effs: Vec<Effect> = cmd.effects().collect();
                    let evs: Vec<Event> = cmd.events().collect();
                    (effs, evs)
                })
                .map_err(|m| format!("the timer command panicked: {m}"))?;
                let mut want_effs: Vec<String> = vec![];
                for (i, m) in model.iter_mut().enumerate() {
                    loop {
                        match m.st {
                            St::Created if !m.gate_open => {}
                            St::Created => {
                                if m.clear_sent {
                                    m.st = St::Cleared;
                                    want[i].push("Cleared");
                                } else {
                                    m.st = St::Requested;
                                    want_effs.push(format!("notify{i}"));
                                    continue;
                                }
                            }
                            St::Requested => {
                                if m.answer_waiting {
                                    m.st = St::Completed;
                                    want[i].push("Completed");
                                } else if m.clear_sent {
                                    m.st = St::ClearRequested;
                                    want_effs.push(format!("clear{i}"));
                                    continue;
                                } else if m.req_dropped && m.handle_gone {
                                    m.st = St::Dead;
                                }
                            }
                            St::ClearRequested => {
                                if m.clear_answer_waiting {
                                    m.st = St::Cleared;
                                    want[i].push("Cleared");
                                } else if m.clear_req_dropped {
                                    m.st = St::Dead;
                                }
                            }
                            _ => {}
                        }
                        break;
                    }
                }
                let mut got: Vec<(TimerId, bool, Request<TimeRequest>)> = vec![];
                for Effect::Time(req) in effs {
                    match &req.operation {
                        TimeRequest::NotifyAfter { id, .. } | TimeRequest::NotifyAt { id, .. } => got.push((*id, false, req)),
                        TimeRequest::Clear { id } => got.push((*id, true, req)),
                        other => return Err(format!("unexpected time request {other:?}")),
                    }
                }
                got.sort_by_key(|(id, c, _)| (id.0, *c));
                let mut got_names = vec![];
                for (id, is_clear, req) in got {
                    if is_clear {
                        match ids.iter().position(|x| *x == Some(id)) {
                            Some(i) => {
                                got_names.push(format!("clear{i}"));
                                clear_reqs[i] = Some(req);
                            }
                            None => return Err(format!("a Clear request for id {}, which no timer of this command was given", id.0)),
                        }
                    } else {
                        if !ALL_IDS.lock().unwrap().get_or_insert_with(HashSet::new).insert(id.0) {
                            return Err(format!("timer id {} was handed out twice in this process", id.0));
                        }
                        // ids are allocated at creation, in creation order
                        match (0..nt).find(|&i| ids[i].is_none() && want_effs.contains(&format!("notify{i}"))) {
                            Some(i) => {
                                ids[i] = Some(id);
                                got_names.push(format!("notify{i}"));
                                reqs[i] = Some(req);
                            }
                            None => return Err(format!("an unexpected notify request (id {})", id.0)),
                        }
                    }
                }
                got_names.sort();
                want_effs.sort();
                if got_names != want_effs {
                    return Err(format!("time requests seen by the shell: {got_names:?}, the statement's automaton gives {want_effs:?}"));
                }
                for Event::Out(i, o) in evs {
                    outcomes[i].push(match o {
                        TimerOutcome::Completed(_) => "Completed",
                        TimerOutcome::Cleared => "Cleared",
                    });
                }
                if outcomes != want {
                    return Err(format!("timer outcomes {outcomes:?}, the statement's automaton gives {want:?}"));
                }
            }
            Act::Fire(k) => {
                let i = t(k);
                if let (Some(mut q), Some(id)) = (reqs[i].take(), ids[i]) {
                    let resp = match q.operation {
                        TimeRequest::NotifyAfter { .. } => TimeResponse::DurationElapsed { id },
                        _ => TimeResponse::InstantArrived { id },
                    };
                    match catch(|| q.resolve(resp)) {
                        Err(m) => return Err(format!("answering a timer panicked: {m}")),
                        Ok(Err(e)) => return Err(format!("the first answer to a timer request was rejected: {e}")),
                        Ok(Ok(())) => {}
                    }
                    if model[i].st == St::Requested {
                        model[i].answer_waiting = true;
                    }
                    spent[i] = Some(q);
                    fired[i] = true;
                }
            }
            Act::LateFire(k) => {
                let i = t(k);
                if let (Some(q), Some(id)) = (spent[i].as_mut(), ids[i]) {
                    let resp = match q.operation {
                        TimeRequest::NotifyAfter { .. } => TimeResponse::DurationElapsed { id },
                        _ => TimeResponse::InstantArrived { id },
                    };
                    match catch(|| q.resolve(resp)) {
                        Err(m) => return Err(format!("a duplicate answer panicked: {m}")),
                        Ok(Ok(())) => return Err("a second answer to a one-shot timer request was accepted".into()),
                        Ok(Err(_)) => {}
                    }
                }
            }
            Act::Clear(k) => {
                let i = t(k);
                if let Some(h) = handles[i].take() {
                    h.clear();
                    if matches!(model[i].st, St::Created | St::Requested) {
                        model[i].clear_sent = true;
                    }
                    model[i].handle_gone = true;
                    cleared[i] = true;
                }
            }
            Act::DropHandle(k) => {
                let i = t(k);
                if let Some(h) = handles[i].take() {
                    drop(h);
                    model[i].handle_gone = true;
                }
            }
            Act::DropRequest(k) => {
                let i = t(k);
                if let Some(q) = reqs[i].take() {
                    drop(q);
                    if model[i].st == St::Requested {
                        model[i].req_dropped = true;
                    }
                }
            }
            Act::AnswerClear(k) => {
                let i = t(k);
                if let (Some(mut q), Some(id)) = (clear_reqs[i].take(), ids[i]) {
                    match catch(|| q.resolve(TimeResponse::Cleared { id })) {
                        Err(m) => return Err(format!("answering a Clear request panicked: {m}")),
                        Ok(Err(e)) => return Err(format!("the answer to a Clear request was rejected: {e}")),
                        Ok(Ok(())) => {}
                    }
                    if model[i].st == St::ClearRequested {
                        model[i].clear_answer_waiting = true;
                    }
                }
            }
            Act::OpenGate(k) => {
                let i = t(k);
                if let Some(g) = gates[i].take() {
                    let _ = g.send(());
                    model[i].gate_open = true;
                }
            }
            Act::DropClearRequest(k) => {
                let i = t(k);
                if let Some(q) = clear_reqs[i].take() {
                    drop(q);
                    if model[i].st == St::ClearRequested {
                        model[i].clear_req_dropped = true;
                    }
                }
            }
        }
    }
    let (legacy_timers, legacy_both) = legacy::run(&case.legacy)?;
    Ok(Info { both_clear_and_fire: (0..nt).any(|i| fired[i] && cleared[i]), timers: nt, legacy_timers, legacy_both })
}

pub fn strategy() -> BoxedStrategy<Case> {
    let act = prop_oneof![
        6 => Just(Act::Poll),
        3 => (0u8..3).prop_map(Act::Fire),
        3 => (0u8..3).prop_map(Act::Clear),
        1 => (0u8..3).prop_map(Act::DropHandle),
        1 => (0u8..3).prop_map(Act::DropRequest),
        2 => (0u8..3).prop_map(Act::AnswerClear),
        1 => (0u8..3).prop_map(Act::DropClearRequest),
        1 => (0u8..3).prop_map(Act::LateFire),
        2 => (0u8..3).prop_map(Act::OpenGate),
    ];
    let lact = prop_oneof![
        3 => any::<bool>().prop_map(LAct::Start),
        1 => any::<bool>().prop_map(LAct::StartAndClear),
        3 => any::<u8>().prop_map(LAct::Fire),
        3 => any::<u8>().prop_map(LAct::Clear),
        1 => any::<u8>().prop_map(LAct::DropRequest),
        1 => any::<u8>().prop_map(LAct::LateFire),
        1 => prop_oneof![0u8..4, 60u8..68, 124u8..132].prop_map(LAct::Pad),
    ];
    (prop::collection::vec(any::<bool>(), 1..4), prop::collection::vec(act, 0..20), prop::collection::vec(lact, 0..10), prop::collection::vec(0u8..3, 3)).prop_map(|(timers, acts, legacy, styles)| Case { timers, acts, legacy, styles }).boxed()
}

pub fn main(mode: Mode) {
    let prop = "C18";
    let stats = Stats::new();
    let check = |c: &Case| -> Result<(), String> {
        let info = run(c)?;
        let nt = info.both_clear_and_fire || (info.timers >= 2 && c.acts.len() >= 6);
        stats.case(c, nt, &[if info.both_clear_and_fire { "clear+fire" } else { "other" }, match info.timers { 1 => "timers:1", 2 => "timers:2", _ => "timers:3" }, if info.legacy_both { "legacy:clear+fire" } else if info.legacy_timers > 0 { "legacy:timers" } else { "legacy:none" }]);
        if info.both_clear_and_fire && stats.wants_sample() {
            stats.sample(|| serde_json::to_value(c).unwrap());
        }
        Ok(())
    };
    match mode {
        Mode::Replay(path) => {
            let res = vkit::read_replay(&path).and_then(|v| serde_json::from_value::<Case>(v).map_err(|e| e.to_string())).and_then(|c| check(&c));
            vkit::finish_replay(prop, &path, res)
        }
        Mode::Run(tier) => {
            let started = std::time::Instant::now();
            let mut replayed = 0;
            for f in vkit::replay_files(prop) {
                replayed += 1;
                if let Err(why) = vkit::read_replay(&f).and_then(|v| serde_json::from_value::<Case>(v).map_err(|e| e.to_string())).and_then(|c| check(&c)) {
                    println!("why: {why}");
                    println!("VIOLATION property={prop} replay={}", f.display());
                    std::process::exit(1);
                }
            }
            let outcome = vkit::run_prop(prop, vkit::workers_for(tier), tier.pick(30_000, 1_000_000), strategy, check);
            let outcome = match outcome {
                Outcome::Held if stats.distinct_nontrivial() < 2 => Outcome::Inconclusive("generator produced no non-trivial case".into()),
                o => o,
            };
            vkit::finish(
                Report {
                    prop,
                    tier,
                    rule: "(a) 1-3 command-API timers (notify_after / notify_at; each run through builder.then_send, through into_future(ctx).await in a Command::new task, or with its future created first and polled for the first time only after a gate of the schedule opens) under Command::all and up to 20 actions drawn from {poll, fire, clear, drop handle, drop request, answer clear, drop clear request, duplicate fire, open gate}; the observed TimeRequest effects and TimerOutcome events must be a run of the per-timer automaton written from the property statement, and ids must be unique across all timers created in the process through either API; (b) in the same process a history of up to 10 calls on a Core whose app uses the legacy Time capability (start, start-and-clear in one update, fire, clear by id, drop request, duplicate fire): every started timer sends one notify request with a fresh id unless it was cleared in the same update, every clear sends exactly one Clear for that id, and each timer reports at most one outcome - completed only if the shell answered, cleared only if the app had cleared it - unchanged by later clears and answers; non-trivial = some timer saw both a clear and a fire, or >= 2 timers with >= 6 actions; distinct = distinct (timer kinds, action list)",
                    assumptions: vec!["responses have the kind matching the request (a mismatching kind is a documented developer error that panics)".into(), "the legacy capability is checked on the clauses that do not depend on the handle-based API (unique ids, one outcome with the right cause, one Clear per clear, nothing after the outcome); whether its clear may notify the shell about a timer the shell never saw is left open".into()],
                    started,
                    replayed,
                },
                &stats,
                outcome,
            )
        }
    }
}
