//! C17 — key-value operations and results pass through unaltered.
//!
//! Generated: an operation (key / prefix / value / cursor from boundary-weighted generators), the
//! API it is issued through (capability callback API, capability async API, command API), a
//! matching response or a shell error, and the host (typed core, bincode bridge).
//! Oracle: exactly one `KeyValueOperation` with identical fields reaches the shell, and the app
//! receives exactly the response's payload (absent != empty).

use bincode::Options;
use crux_core::bridge::{Bridge, Request as BridgeRequest};
use crux_core::macros::Effect;
use crux_core::render::Render;
use crux_core::{Command, Core};
use crux_kv::error::KeyValueError;
use crux_kv::value::Value;
use crux_kv::{KeyValue, KeyValueOperation, KeyValueResponse, KeyValueResult};
use proptest::prelude::*;
use serde::{Deserialize, Serialize};
use vkit::{panics::catch, Mode, Outcome, Report, Stats};

#[derive(Debug, Clone, PartialEq, Eq, Hash, Serialize, Deserialize)]
pub enum OpSpec {
    Get { key: String },
    Set { key: String, value: Vec<u8> },
    Delete { key: String },
    Exists { key: String },
    ListKeys { prefix: String, cursor: u64 },
}

#[derive(Debug, Clone, Copy, PartialEq, Eq, Hash, Serialize, Deserialize)]
pub enum Api {
    Capability,
    CapabilityAsync,
    Command,
}

#[derive(Debug, Clone, PartialEq, Eq, Hash, Serialize, Deserialize)]
pub enum Answer {
    /// the matching success response; `value` = None means "absent"
    Data { value: Option<Vec<u8>> },
    Present { is_present: bool },
    Keys { keys: Vec<String>, next_cursor: u64 },
    Io { message: String },
    Timeout,
    CursorNotFound,
    Other { message: String },
}

#[derive(Debug, Clone, PartialEq, Eq, Hash, Serialize, Deserialize)]
pub struct Case {
    pub api: Api,
    pub op: OpSpec,
    pub answer: Answer,
    pub through_bridge: bool,
    /// calls the same app made (and had answered) on the same core before this one, oldest first:
    /// every one of them is judged like the last, so a case is a short history - whatever a call
    /// leaves behind in the capability for a later one shows in a replayable case
    #[serde(default)]
    pub earlier: Vec<Step>,
}

#[derive(Debug, Clone, PartialEq, Eq, Hash, Serialize, Deserialize)]
pub struct Step {
    pub api: Api,
    pub op: OpSpec,
    pub answer: Answer,
}

/// what the app is told, in a serializable form
#[derive(Debug, Clone, PartialEq, Eq, Serialize, Deserialize)]
pub enum Told {
    Data(Result<Option<Vec<u8>>, KeyValueError>),
    Status(Result<bool, KeyValueError>),
    List(Result<(Vec<String>, u64), KeyValueError>),
}

#[derive(Debug, Clone, PartialEq, Serialize, Deserialize)]
pub enum Event {
    Run(Api, OpSpec),
    Told(Told),
}

#[derive(Effect)]
#[allow(dead_code)]
pub struct Capabilities {
    pub key_value: KeyValue<Event>,
    pub compose: crux_core::compose::Compose<Event>,
    pub render: Render<Event>,
}

#[derive(Default)]
pub struct App;

#[derive(Default)]
pub struct Model {
    told: Vec<Told>,
}

type Kv = crux_kv::command::KeyValue<Effect, Event>;

impl crux_core::App for App {
    type Event = Event;
    type Model = Model;
    type ViewModel = Vec<Told>;
    type Capabilities = Capabilities;
    type Effect = Effect;
    fn update(&self, ev: Event, m: &mut Model, caps: &Capabilities) -> Command<Effect, Event> {
        match ev {
            Event::Told(t) => {
                m.told.push(t);
                Command::done()
            }
            Event::Run(Api::Command, op) => match op {
                OpSpec::Get { key } => Kv::get(key).then_send(|r| Event::Told(Told::Data(r))),
                OpSpec::Set { key, value } => Kv::set(key, value).then_send(|r| Event::Told(Told::Data(r))),
                OpSpec::Delete { key } => Kv::delete(key).then_send(|r| Event::Told(Told::Data(r))),
                OpSpec::Exists { key } => Kv::exists(key).then_send(|r| Event::Told(Told::Status(r))),
                OpSpec::ListKeys { prefix, cursor } => Kv::list_keys(prefix, cursor).then_send(|r| Event::Told(Told::List(r))),
            },
            Event::Run(Api::Capability, op) => {
                let kv = &caps.key_value;
                match op {
                    OpSpec::Get { key } => kv.get(key, |r| Event::Told(Told::Data(r))),
                    OpSpec::Set { key, value } => kv.set(key, value, |r| Event::Told(Told::Data(r))),
                    OpSpec::Delete { key } => kv.delete(key, |r| Event::Told(Told::Data(r))),
                    OpSpec::Exists { key } => kv.exists(key, |r| Event::Told(Told::Status(r))),
                    OpSpec::ListKeys { prefix, cursor } => kv.list_keys(prefix, cursor, |r| Event::Told(Told::List(r))),
                }
                Command::done()
            }
            Event::Run(Api::CapabilityAsync, op) => {
                let kv = caps.key_value.clone();
                caps.compose.spawn(|ctx| async move {
                    let told = match op {
                        OpSpec::Get { key } => Told::Data(kv.get_async(key).await),
                        OpSpec::Set { key, value } => Told::Data(kv.set_async(key, value).await),
                        OpSpec::Delete { key } => Told::Data(kv.delete_async(key).await),
                        OpSpec::Exists { key } => Told::Status(kv.exists_async(key).await),
                        OpSpec::ListKeys { prefix, cursor } => Told::List(kv.list_keys_async(prefix, cursor).await),
                    };
                    ctx.update_app(Event::Told(told));
                });
                Command::done()
            }
        }
    }
    fn view(&self, m: &Model) -> Vec<Told> {
        m.told.clone()
    }
}

fn expected_operation(op: &OpSpec) -> KeyValueOperation {
    match op.clone() {
        OpSpec::Get { key } => KeyValueOperation::Get { key },
        OpSpec::Set { key, value } => KeyValueOperation::Set { key, value },
        OpSpec::Delete { key } => KeyValueOperation::Delete { key },
        OpSpec::Exists { key } => KeyValueOperation::Exists { key },
        OpSpec::ListKeys { prefix, cursor } => KeyValueOperation::ListKeys { prefix, cursor },
    }
}

/// the wire response for (operation, answer), and what the app must be told; None = not a matching pair
fn response_and_expectation(op: &OpSpec, a: &Answer) -> Option<(KeyValueResult, Told)> {
    let err = |e: KeyValueError| -> (KeyValueResult, Told) {
        let told = match op {
            OpSpec::Exists { .. } => Told::Status(Err(e.clone())),
            OpSpec::ListKeys { .. } => Told::List(Err(e.clone())),
            _ => Told::Data(Err(e.clone())),
        };
        (KeyValueResult::Err { error: e }, told)
    };
    Some(match (op, a) {
        (_, Answer::Io { message }) => err(KeyValueError::Io { message: message.clone() }),
        (_, Answer::Timeout) => err(KeyValueError::Timeout),
        (_, Answer::CursorNotFound) => err(KeyValueError::CursorNotFound),
        (_, Answer::Other { message }) => err(KeyValueError::Other { message: message.clone() }),
        (OpSpec::Get { .. }, Answer::Data { value }) => (KeyValueResult::Ok { response: KeyValueResponse::Get { value: Value::from(value.clone()) } }, Told::Data(Ok(value.clone()))),
        (OpSpec::Set { .. }, Answer::Data { value }) => (KeyValueResult::Ok { response: KeyValueResponse::Set { previous: Value::from(value.clone()) } }, Told::Data(Ok(value.clone()))),
        (OpSpec::Delete { .. }, Answer::Data { value }) => (KeyValueResult::Ok { response: KeyValueResponse::Delete { previous: Value::from(value.clone()) } }, Told::Data(Ok(value.clone()))),
        (OpSpec::Exists { .. }, Answer::Present { is_present }) => (KeyValueResult::Ok { response: KeyValueResponse::Exists { is_present: *is_present } }, Told::Status(Ok(*is_present))),
        (OpSpec::ListKeys { .. }, Answer::Keys { keys, next_cursor }) => (KeyValueResult::Ok { response: KeyValueResponse::ListKeys { keys: keys.clone(), next_cursor: *next_cursor } }, Told::List(Ok((keys.clone(), *next_cursor)))),
        _ => return None,
    })
}

fn opts() -> impl bincode::Options + Copy {
    bincode::DefaultOptions::new().with_fixint_encoding().allow_trailing_bytes()
}

enum Host {
    Bridge(Bridge<App>),
    Core(Core<App>),
}

/// one call and its answer on the given host; `told_before` = how many outcomes the app has been told so far
fn step(host: &Host, api: Api, op: &OpSpec, answer: &Answer, told_before: usize) -> Result<bool, String> {
    let Some((response, want_told)) = response_and_expectation(op, answer) else { return Ok(false) };
    let want_op = expected_operation(op);
    let told: Vec<Told> = match host {
        Host::Bridge(bridge) => {
            let out = bridge.process_event(&opts().serialize(&Event::Run(api, op.clone())).unwrap()).map_err(|e| e.to_string())?;
            let reqs: Vec<BridgeRequest<EffectFfi>> = opts().deserialize(&out).map_err(|e| format!("requests do not decode: {e}"))?;
            let kv: Vec<(u32, KeyValueOperation)> = reqs.into_iter().filter_map(|r| if let EffectFfi::KeyValue(op) = r.effect { Some((r.id.0, op)) } else { None }).collect();
            if kv.len() != 1 {
                return Err(format!("{} key-value operations reached the shell, expected exactly one", kv.len()));
            }
            if kv[0].1 != want_op {
                return Err(format!("the shell received {:?}, the app asked for {:?}", kv[0].1, want_op));
            }
            bridge.handle_response(kv[0].0, &opts().serialize(&response).unwrap()).map_err(|e| format!("the response was rejected: {e}"))?;
            opts().deserialize(&bridge.view().map_err(|e| e.to_string())?).map_err(|e| format!("view does not decode: {e}"))?
        }
        Host::Core(core) => {
            let effs = core.process_event(Event::Run(api, op.clone()));
            let mut kv: Vec<crux_core::Request<KeyValueOperation>> = effs.into_iter().filter_map(|e| if let Effect::KeyValue(r) = e { Some(r) } else { None }).collect();
            if kv.len() != 1 {
                return Err(format!("{} key-value operations reached the shell, expected exactly one", kv.len()));
            }
            if kv[0].operation != want_op {
                return Err(format!("the shell received {:?}, the app asked for {:?}", kv[0].operation, want_op));
            }
            let more = core.resolve(&mut kv[0], response.clone()).map_err(|e| format!("the response was rejected: {e}"))?;
            if more.iter().any(|e| matches!(e, Effect::KeyValue(_))) {
                return Err("a further key-value operation was emitted after the response".into());
            }
            core.view()
        }
    };
    if told.len() < told_before || told[told_before..] != [want_told.clone()] {
        return Err(format!("the shell answered {response:?}; the app was told {:?}, expected exactly [{want_told:?}]{}", &told[told_before.min(told.len())..], if told_before > 0 { format!(" (call {} of a history on one core)", told_before + 1) } else { String::new() }));
    }
    Ok(true)
}

pub fn run(c: &Case) -> Result<bool, String> {
    if response_and_expectation(&c.op, &c.answer).is_none() {
        return Ok(false);
    }
    catch(|| -> Result<bool, String> {
        let host = if c.through_bridge { Host::Bridge(Bridge::new(Core::new())) } else { Host::Core(Core::new()) };
        let mut told = 0;
        for e in &c.earlier {
            if step(&host, e.api, &e.op, &e.answer, told)? {
                told += 1;
            }
        }
        step(&host, c.api, &c.op, &c.answer, told)
    })
    .map_err(|m| format!("panic: {m}"))?
}

fn keys() -> BoxedStrategy<String> {
    prop_oneof![2 => Just(String::new()), 4 => "[a-z0-9:/_.-]{1,12}", 3 => "\\PC{1,10}", 1 => Just("k\u{0}é✓\u{10ffff}".to_string()), 1 => "[a-z]{2000,3000}"].boxed()
}
fn values() -> BoxedStrategy<Vec<u8>> {
    prop_oneof![2 => Just(vec![]), 4 => prop::collection::vec(any::<u8>(), 1..8), 1 => Just(vec![0, 255, 0, 255]), 1 => prop::collection::vec(any::<u8>(), 3000..5000)].boxed()
}
fn cursors() -> BoxedStrategy<u64> {
    prop_oneof![Just(0u64), Just(1u64), Just(u64::MAX), any::<u64>()].boxed()
}

fn one_step() -> BoxedStrategy<Step> {
    let op = prop_oneof![
        keys().prop_map(|key| OpSpec::Get { key }),
        (keys(), values()).prop_map(|(key, value)| OpSpec::Set { key, value }),
        keys().prop_map(|key| OpSpec::Delete { key }),
        keys().prop_map(|key| OpSpec::Exists { key }),
        (keys(), cursors()).prop_map(|(prefix, cursor)| OpSpec::ListKeys { prefix, cursor }),
    ];
    let api = prop_oneof![Just(Api::Capability), Just(Api::CapabilityAsync), Just(Api::Command)];
    (api, op)
        .prop_flat_map(|(api, op)| {
            let matching: BoxedStrategy<Answer> = match &op {
                OpSpec::Exists { .. } => any::<bool>().prop_map(|is_present| Answer::Present { is_present }).boxed(),
                OpSpec::ListKeys { .. } => (prop::collection::vec(keys(), 0..4), cursors()).prop_map(|(keys, next_cursor)| Answer::Keys { keys, next_cursor }).boxed(),
                _ => proptest::option::weighted(0.7, values()).prop_map(|value| Answer::Data { value }).boxed(),
            };
            let answer = prop_oneof![6 => matching, 1 => keys().prop_map(|message| Answer::Io { message }), 1 => Just(Answer::Timeout), 1 => Just(Answer::CursorNotFound), 1 => keys().prop_map(|message| Answer::Other { message })];
            answer.prop_map(move |answer| Step { api, op: op.clone(), answer })
        })
        .boxed()
}

/// a history: 1-4 calls on one core, the later ones often of the first one's kind with a key / cursor the
/// history has already seen (pages of one listing, a value read back, a cursor the shell repeats)
pub fn strategy() -> BoxedStrategy<Case> {
    let related = |first: Step| {
        prop::collection::vec((one_step(), any::<bool>(), any::<bool>()), 0..4).prop_map(move |more| {
            let mut steps = vec![first.clone()];
            for (mut s, same_kind, same_api) in more {
                if same_api {
                    s.api = first.api;
                }
                if same_kind {
                    if let (OpSpec::ListKeys { prefix, .. }, Answer::Keys { next_cursor, keys }) = (&first.op, &first.answer) {
                        // the next page of the same listing, or the same page again
                        s.op = OpSpec::ListKeys { prefix: prefix.clone(), cursor: *next_cursor };
                        if !matches!(s.answer, Answer::Keys { .. }) {
                            s.answer = Answer::Keys { keys: keys.clone(), next_cursor: *next_cursor };
                        }
                    }
                }
                steps.push(s);
            }
            steps
        })
    };
    (one_step(), any::<bool>(), proptest::bool::weighted(0.3))
        .prop_flat_map(move |(first, through_bridge, history)| {
            if history {
                related(first).prop_map(move |mut steps| {
                    let last = steps.pop().unwrap();
                    Case { api: last.api, op: last.op, answer: last.answer, through_bridge, earlier: steps }
                }).boxed()
            } else {
                Just(Case { api: first.api, op: first.op, answer: first.answer, through_bridge, earlier: vec![] }).boxed()
            }
        })
        .boxed()
}

pub fn main(mode: Mode) {
    let prop = "C17";
    let stats = Stats::new();
    let check = |c: &Case| -> Result<(), String> {
        if !run(c)? {
            return Ok(());
        }
        let key = match &c.op {
            OpSpec::Get { key } | OpSpec::Set { key, .. } | OpSpec::Delete { key } | OpSpec::Exists { key } => key,
            OpSpec::ListKeys { prefix, .. } => prefix,
        };
        let binary = |v: &Vec<u8>| v.contains(&0) || v.contains(&255);
        let empty_vs_absent = matches!(&c.answer, Answer::Data { value } if value.as_ref().map_or(true, |v| v.is_empty()));
        let nt = !key.is_ascii() || empty_vs_absent || matches!(&c.op, OpSpec::Set { value, .. } if binary(value)) || matches!(&c.answer, Answer::Data { value: Some(v) } if binary(v));
        stats.case(
            c,
            nt,
            &[
                match c.api {
                    Api::Capability => "api:capability",
                    Api::CapabilityAsync => "api:capability-async",
                    Api::Command => "api:command",
                },
                if c.through_bridge { "host:bridge" } else { "host:core" },
                match c.op {
                    OpSpec::Get { .. } => "op:get",
                    OpSpec::Set { .. } => "op:set",
                    OpSpec::Delete { .. } => "op:delete",
                    OpSpec::Exists { .. } => "op:exists",
                    OpSpec::ListKeys { .. } => "op:list",
                },
                if matches!(c.answer, Answer::Data { .. } | Answer::Present { .. } | Answer::Keys { .. }) { "answer:ok" } else { "answer:error" },
                match c.earlier.len() { 0 => "history:1-call", 1 => "history:2-calls", _ => "history:3-4-calls" },
                if c.earlier.iter().any(|e| matches!((&e.answer, &c.op), (Answer::Keys { next_cursor, .. }, OpSpec::ListKeys { cursor, .. }) if next_cursor == cursor && *cursor != 0)) { "history:next-page-of-an-earlier-listing" } else { "history:unrelated" },
            ],
        );
        if nt && stats.wants_sample() {
            stats.sample(|| serde_json::to_value(c).unwrap());
        }
        Ok(())
    };
    match mode {
        Mode::Replay(path) => {
            let res = vkit::read_replay(&path).and_then(|v| serde_json::from_value::<Case>(v).map_err(|e| e.to_string())).and_then(|c| check(&c));
            vkit::finish_replay(prop, &path, res)
        }
        Mode::Run(tier) => {
            let started = std::time::Instant::now();
            let mut replayed = 0;
            for f in vkit::replay_files(prop) {
                replayed += 1;
                if let Err(why) = vkit::read_replay(&f).and_then(|v| serde_json::from_value::<Case>(v).map_err(|e| e.to_string())).and_then(|c| check(&c)) {
                    println!("why: {why}");
                    println!("VIOLATION property={prop} replay={}", f.display());
                    std::process::exit(1);
                }
            }
            let outcome = vkit::run_prop(prop, vkit::workers_for(tier), tier.pick(40_000, 1_000_000), strategy, check);
            let outcome = match outcome {
                Outcome::Held if stats.distinct_nontrivial() < 2 => Outcome::Inconclusive("generator produced no non-trivial case".into()),
                o => o,
            };
            vkit::finish(
                Report {
                    prop,
                    tier,
                    rule: "a key-value operation (keys/prefixes: empty, ASCII, unicode, NUL, 2-3 kB; values: empty, binary, 3-5 kB; cursors 0, 1, u64::MAX, random) issued through the capability callback API, the capability async API or the command API, answered with the matching response kind (incl. absent vs empty) or one of the four error variants, on the typed core or through the bincode bridge; non-trivial = non-ASCII key, binary value, or an absent/empty value; distinct = distinct case",
                    assumptions: vec!["responses have the kind matching the operation (a mismatching kind panics by design)".into()],
                    started,
                    replayed,
                },
                &stats,
                outcome,
            )
        }
    }
}
