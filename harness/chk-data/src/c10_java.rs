//! C10, the generated code itself: `TypeGen::java` writes the Java classes a shell would use,
//! `javac` compiles them (together with serde-generate's Java runtime, which `java()` installs), and
//! a small driver decodes every offered byte string with the generated `bincodeDeserialize` and
//! writes it back with the generated `bincodeSerialize`.
//!
//! Oracle (differential, generated inputs): for schema-valid values generated from the registry, the
//! bytes of the schema encoding (which the main campaign shows to be what Rust writes and what the
//! core accepts) must be accepted by the generated class with nothing left over, and what the
//! generated class writes back must denote the same value (byte-identical unless the value
//! contains a map with several entries: Java keeps maps in a HashMap, and bincode does not order
//! map entries).
//!
//! Two cheap clauses ride along, both about *which* registry the code is generated from:
//!  * the registry `java()` generated from (TypeGen's public state afterwards) is the checked one;
//!  * an app type whose nested enum was not registered on its own is either refused, or generated
//!    with every variant - never from a half-explored enum.
//!
//! Not checkable here: Swift and TypeScript output (no swiftc / tsc in the sandbox). serde-generate's
//! Java runtime does not implement `char`; values containing one are left out (counted). That
//! runtime also encodes strings with the JVM's default charset (`String.getBytes()`), which is
//! UTF-8 on Android and on every JVM since 18 but follows the locale on the JDK 17 of this sandbox:
//! the driver is started with -Dfile.encoding=UTF-8.

use crate::c10::{App, Case, Shape, Wide};
use crux_core::typegen::{State, TypeGen};
use proptest::strategy::{Strategy, ValueTree};
use proptest::test_runner::{Config, RngAlgorithm, TestRng, TestRunner};
use serde::{Deserialize, Serialize};
use serde_reflection::Registry;
use std::path::{Path, PathBuf};
use std::process::Command as Proc;
use std::rc::Rc;
use wire::{dec_c, enc_c, Rd, V};

const PACKAGE: &str = "com.verif.shared";

#[derive(Debug, Default, Serialize)]
pub struct JavaReport {
    pub ran: bool,
    pub reason: Option<String>,
    pub containers: usize,
    pub values_round_tripped: u64,
    pub values_with_a_multi_entry_map: u64,
    pub skipped_char: u64,
    pub skipped_too_large: u64,
    pub lazy_app: &'static str,
    pub javac_s: f64,
    pub java_s: f64,
}

pub struct Fail {
    pub sig: String,
    pub why: String,
    pub case: serde_json::Value,
}

fn fail(sig: &str, why: String, case: serde_json::Value) -> Fail {
    Fail { sig: sig.into(), why, case }
}

// ---- an app type with a nested enum that nobody registers on its own
#[derive(Serialize, Deserialize, Debug, Clone, PartialEq)]
pub enum Mood {
    Calm,
    Wild(u8),
    Odd { x: u16 },
}
#[derive(Serialize, Deserialize, Debug, Clone, PartialEq)]
pub struct Holder {
    pub mood: Mood,
    pub moods: Vec<Mood>,
}

fn contains_char(v: &V) -> bool {
    match v {
        V::Char(_) => true,
        V::Some(x) | V::Variant(_, x) => contains_char(x),
        V::Seq(xs) | V::Tuple(xs) => xs.iter().any(contains_char),
        V::Map(xs) => xs.iter().any(|(k, v)| contains_char(k) || contains_char(v)),
        V::Struct(xs) => xs.iter().any(|(_, v)| contains_char(v)),
        _ => false,
    }
}
fn has_multi_map(v: &V) -> bool {
    match v {
        V::Map(xs) => xs.len() > 1 || xs.iter().any(|(k, v)| has_multi_map(k) || has_multi_map(v)),
        V::Some(x) | V::Variant(_, x) => has_multi_map(x),
        V::Seq(xs) | V::Tuple(xs) => xs.iter().any(has_multi_map),
        V::Struct(xs) => xs.iter().any(|(_, v)| has_multi_map(v)),
        _ => false,
    }
}
/// map entries in a canonical order (by the debug text of the key)
fn normalise(v: &V) -> V {
    match v {
        V::Map(xs) => {
            let mut ys: Vec<(V, V)> = xs.iter().map(|(k, v)| (normalise(k), normalise(v))).collect();
            ys.sort_by_key(|(k, _)| format!("{k:?}"));
            V::Map(ys)
        }
        V::Some(x) => V::Some(Box::new(normalise(x))),
        V::Variant(n, x) => V::Variant(n.clone(), Box::new(normalise(x))),
        V::Seq(xs) => V::Seq(xs.iter().map(normalise).collect()),
        V::Tuple(xs) => V::Tuple(xs.iter().map(normalise).collect()),
        V::Struct(xs) => V::Struct(xs.iter().map(|(f, v)| (f.clone(), normalise(v))).collect()),
        other => other.clone(),
    }
}

fn hex(b: &[u8]) -> String {
    let mut s = String::with_capacity(b.len() * 2);
    for x in b {
        s.push_str(&format!("{x:02x}"));
    }
    s
}
fn unhex(s: &str) -> Option<Vec<u8>> {
    if s.len() % 2 != 0 {
        return None;
    }
    (0..s.len()).step_by(2).map(|i| u8::from_str_radix(&s[i..i + 2], 16).ok()).collect()
}

const DRIVER: &str = r#"
import java.io.*;
import java.lang.reflect.*;
import java.nio.charset.StandardCharsets;
import java.nio.file.*;

public class Main {
    static byte[] unhex(String s) {
        byte[] b = new byte[s.length() / 2];
        for (int i = 0; i < b.length; i++) b[i] = (byte) Integer.parseInt(s.substring(2 * i, 2 * i + 2), 16);
        return b;
    }
    static String hex(byte[] b) {
        StringBuilder sb = new StringBuilder(b.length * 2);
        for (byte x : b) sb.append(String.format("%02x", x & 0xff));
        return sb.toString();
    }
    public static void main(String[] a) throws Exception {
        BufferedReader in = Files.newBufferedReader(Paths.get(a[1]), StandardCharsets.US_ASCII);
        PrintStream out = new PrintStream(new BufferedOutputStream(new FileOutputStream(a[2])), false, "US-ASCII");
        String line;
        while ((line = in.readLine()) != null) {
            int sp = line.indexOf(' ');
            String name = line.substring(0, sp);
            try {
                byte[] bytes = unhex(line.substring(sp + 1));
                Class<?> c = Class.forName(a[0] + "." + name);
                Object v = c.getMethod("bincodeDeserialize", byte[].class).invoke(null, (Object) bytes);
                byte[] back = (byte[]) c.getMethod("bincodeSerialize").invoke(v);
                out.println("OK " + hex(back));
            } catch (InvocationTargetException e) {
                out.println("ERR " + String.valueOf(e.getCause()).replace('\n', ' '));
            } catch (Throwable e) {
                out.println("ERR " + String.valueOf(e).replace('\n', ' '));
            }
        }
        out.flush();
    }
}
"#;

fn java_files(dir: &Path, out: &mut Vec<PathBuf>) {
    if let Ok(rd) = std::fs::read_dir(dir) {
        for e in rd.flatten() {
            let p = e.path();
            if p.is_dir() {
                java_files(&p, out);
            } else if p.extension().map_or(false, |x| x == "java") {
                out.push(p);
            }
        }
    }
}

fn typegen_for_app() -> Result<TypeGen, String> {
    let mut g = TypeGen::new();
    g.register_type::<Shape>().map_err(|e| e.to_string())?;
    g.register_type::<Wide>().map_err(|e| e.to_string())?;
    g.register_app::<App>().map_err(|e| format!("register_app failed: {e}"))?;
    Ok(g)
}

/// the "lazy app" clause; Ok(label)
fn lazy_app(dir: &Path) -> Result<&'static str, Fail> {
    let mut lazy = TypeGen::new();
    if lazy.register_type::<Holder>().is_err() {
        return Ok("registration-refused");
    }
    match lazy.java(PACKAGE, dir.join("lazy-src")) {
        Err(_) => Ok("generation-refused"),
        Ok(()) => {
            let State::Generating(got) = &lazy.state else { return Ok("generation-refused") };
            let mut full = TypeGen::new();
            let complete = full.register_type::<Mood>().and_then(|_| full.register_type::<Holder>()).map_err(|e| e.to_string()).and_then(|_| match std::mem::replace(&mut full.state, State::Generating(Default::default())) {
                State::Registering(tracer, _) => tracer.registry().map_err(|e| e.to_string()),
                State::Generating(r) => Ok(r),
            });
            let complete = complete.map_err(|e| fail("error", format!("the complete registry of the lazy app could not be built: {e}"), serde_json::Value::Null))?;
            if got.get("Mood") != complete.get("Mood") || got.get("Holder") != complete.get("Holder") {
                return Err(fail(
                    "generated-from-incomplete-registry",
                    format!("code was generated for a type whose nested enum had not been explored: Mood is described as {}, the enum is {}", serde_json::to_string(&got.get("Mood")).unwrap_or_default(), serde_json::to_string(&complete.get("Mood")).unwrap_or_default()),
                    serde_json::json!({ "java": true, "container": "Mood", "value": "Unit" }),
                ));
            }
            Ok("generated-complete")
        }
    }
}

/// `only`: replay of one saved case; otherwise `per_container` generated values for every container
pub fn run(checked: &Registry, per_container: usize, seed: u64, only: Option<&Case>) -> Result<JavaReport, Fail> {
    let mut rep = JavaReport::default();
    let dir = vkit::verif_root().join("out").join(format!("c10-java-{}", std::process::id()));
    let _ = std::fs::remove_dir_all(&dir);
    std::fs::create_dir_all(&dir).map_err(|e| fail("error", format!("cannot create {}: {e}", dir.display()), serde_json::Value::Null))?;
    let res = run_in(&dir, checked, per_container, seed, only, &mut rep);
    let _ = std::fs::remove_dir_all(&dir);
    res.map(|_| rep)
}

fn run_in(dir: &Path, checked: &Registry, per_container: usize, seed: u64, only: Option<&Case>, rep: &mut JavaReport) -> Result<(), Fail> {
    let null = serde_json::Value::Null;
    // ---- generate through the public path
    let mut g = typegen_for_app().map_err(|e| fail("error", e, null.clone()))?;
    let src = dir.join("src");
    g.java(PACKAGE, &src).map_err(|e| fail("typegen-java-fails", format!("TypeGen::java failed for an app whose registry is closed and complete: {e}"), null.clone()))?;
    let State::Generating(used) = &g.state else { return Err(fail("error", "unexpected typegen state after java()".into(), null)) };
    if used != checked {
        let differing: Vec<&String> = checked.keys().chain(used.keys()).filter(|k| checked.get(*k) != used.get(*k)).collect();
        return Err(fail("generated-from-other-registry", format!("TypeGen::java generated code from a registry that differs from the traced, complete one in {differing:?}"), null));
    }
    rep.lazy_app = lazy_app(dir)?;
    // ---- compile
    if Proc::new("javac").arg("-version").output().is_err() || Proc::new("java").arg("-version").output().is_err() {
        rep.reason = Some("javac / java not found".into());
        return Ok(());
    }
    std::fs::write(src.join("Main.java"), DRIVER).map_err(|e| fail("error", e.to_string(), null.clone()))?;
    let mut files = vec![];
    java_files(&src, &mut files);
    let list = dir.join("sources.txt");
    std::fs::write(&list, files.iter().map(|p| p.display().to_string()).collect::<Vec<_>>().join("\n")).map_err(|e| fail("error", e.to_string(), null.clone()))?;
    let classes = dir.join("classes");
    let t = std::time::Instant::now();
    let out = Proc::new("javac").arg("-nowarn").arg("-d").arg(&classes).arg(format!("@{}", list.display())).output().map_err(|e| fail("error", e.to_string(), null.clone()))?;
    rep.javac_s = t.elapsed().as_secs_f64();
    if !out.status.success() {
        let text = String::from_utf8_lossy(&out.stderr);
        // a compile error names a source file; anything else (the JVM could not start, no memory) is the
        // sandbox's business and no verdict on the generated code
        if text.lines().any(|l| l.contains(".java:") && l.contains("error:")) {
            return Err(fail("generated-java-does-not-compile", format!("javac rejects the generated code: {}", text.lines().filter(|l| l.contains("error:")).take(4).collect::<Vec<_>>().join(" | ")), null));
        }
        rep.reason = Some(format!("javac could not run: {}", text.lines().take(2).collect::<Vec<_>>().join(" | ")));
        return Ok(());
    }
    // ---- the values
    let reg = Rc::new(checked.clone());
    let mut cases: Vec<(Case, Vec<u8>)> = vec![];
    let mut push = |c: Case, rep: &mut JavaReport| {
        if contains_char(&c.value) {
            rep.skipped_char += 1;
            return;
        }
        let mut bytes = vec![];
        if enc_c(&reg, &c.container, &c.value, &mut bytes).is_err() {
            return;
        }
        if bytes.len() > 200_000 {
            rep.skipped_too_large += 1;
            return;
        }
        cases.push((c, bytes));
    };
    match only {
        Some(c) => push(c.clone(), rep),
        None => {
            for (k, name) in checked.keys().enumerate() {
                let strategy = wire::gen::container(&reg, name, 0);
                let mut seed_bytes = [0u8; 32];
                seed_bytes[..8].copy_from_slice(&vkit::derive_seed(seed, "C10-java", k as u64).to_le_bytes());
                let mut runner = TestRunner::new_with_rng(Config::default(), TestRng::from_seed(RngAlgorithm::ChaCha, &seed_bytes));
                for _ in 0..per_container {
                    if let Ok(tree) = strategy.new_tree(&mut runner) {
                        push(Case { container: name.clone(), value: tree.current(), java: true }, rep);
                    }
                }
            }
        }
    }
    rep.containers = checked.len();
    let (input, output) = (dir.join("input.txt"), dir.join("output.txt"));
    let mut text = String::new();
    for (c, bytes) in &cases {
        text.push_str(&c.container);
        text.push(' ');
        text.push_str(&hex(bytes));
        text.push('\n');
    }
    std::fs::write(&input, text).map_err(|e| fail("error", e.to_string(), null.clone()))?;
    let t = std::time::Instant::now();
    let run = Proc::new("java").arg("-Xss64m").arg("-Dfile.encoding=UTF-8").arg("-cp").arg(&classes).arg("Main").arg(PACKAGE).arg(&input).arg(&output).output().map_err(|e| fail("error", e.to_string(), null.clone()))?;
    rep.java_s = t.elapsed().as_secs_f64();
    // (the driver catches whatever the generated code throws, line by line: if the JVM itself fails, that is
    // the sandbox's business and no verdict)
    if !run.status.success() {
        rep.reason = Some(format!("the JVM could not run the driver: {}", String::from_utf8_lossy(&run.stderr).lines().take(2).collect::<Vec<_>>().join(" | ")));
        return Ok(());
    }
    let Ok(answers) = std::fs::read_to_string(&output) else {
        rep.reason = Some("the driver's output could not be read".into());
        return Ok(());
    };
    let answers: Vec<&str> = answers.lines().collect();
    if answers.len() != cases.len() {
        rep.reason = Some(format!("the Java driver answered {} of {} lines", answers.len(), cases.len()));
        return Ok(());
    }
    // ---- judge
    for ((c, bytes), ans) in cases.iter().zip(answers) {
        let as_json = || serde_json::to_value(c).unwrap_or_default();
        if let Some(msg) = ans.strip_prefix("ERR ") {
            return Err(fail(&format!("{}:generated-java-rejects-valid", c.container), format!("the generated Java class {} rejects the {} bytes the core writes / accepts for {:?}: {msg}", c.container, bytes.len(), c.value), as_json()));
        }
        let back = ans.strip_prefix("OK ").and_then(unhex).ok_or_else(|| fail("error", format!("unreadable driver answer {ans:?}"), null.clone()))?;
        let multi = has_multi_map(&c.value);
        if multi {
            rep.values_with_a_multi_entry_map += 1;
        }
        if back != *bytes {
            let mut rd = Rd { b: &back, i: 0 };
            let same_value = multi && matches!(dec_c(&reg, &c.container, &mut rd), Ok(v) if rd.i == back.len() && normalise(&v) == normalise(&c.value));
            if !same_value {
                return Err(fail(&format!("{}:generated-java-writes-other-bytes", c.container), format!("the generated Java class {} read {:?} and wrote it back as other bytes ({} -> {} bytes): {} -> {}", c.container, c.value, bytes.len(), back.len(), hex(&bytes[..bytes.len().min(64)]), hex(&back[..back.len().min(64)])), as_json()));
            }
        }
        rep.values_round_tripped += 1;
    }
    rep.ran = true;
    Ok(())
}
