//! C16 — middleware runs in the documented order; redirects are followed exactly and boundedly.
//!
//! Generated: a per-request middleware stack (marker middlewares of four kinds and `Redirect`s at
//! any position), a start URL, a body, and a served redirect graph (status + optional Location of
//! every shape per URL, shell errors), through every API that can send a request.
//! Oracle: a reference written from the statement and the documentation (see `model`).

use crux_core::compose::Compose;
use crux_core::macros::Effect;
use crux_core::render::Render;
use crux_core::{Command, Core};
use crux_http::client::Client;
use crux_http::middleware::{Middleware, Next, Redirect};
use crux_http::protocol::{HttpRequest, HttpResponse, HttpResult};
use crux_http::{HttpError, Request, ResponseAsync, Result as HResult};
use proptest::prelude::*;
use serde::{Deserialize, Serialize};
use std::collections::BTreeMap;
use std::sync::{Arc, Mutex};
use vkit::{panics::catch, Mode, Outcome, Report, Stats};

#[derive(Debug, Clone, PartialEq, Eq, Hash, Serialize, Deserialize)]
pub enum Mw {
    Pass,
    /// answers itself without calling `next`
    ShortCircuit(u16),
    /// issues a request of its own through the inner client, then continues
    Issue(String),
    /// appends a header `x-mw: <index>` and continues
    AddHeader,
    Redirect(u8),
    /// runs the rest of the chain `n` extra times with body-less clones of the request (`Next` is
    /// `Copy`: a retrying middleware), then once more with the request itself
    Retry(u8),
    /// issues a request that carries per-request middleware of its own, then continues
    IssueWith { url: String, via: Via, sub: Vec<Mw> },
}
/// how a request-issuing middleware sends its own request
#[derive(Debug, Clone, Copy, PartialEq, Eq, Hash, Serialize, Deserialize)]
pub enum Via {
    /// `client.get(u).middleware(..).await`
    Await,
    /// `client.send(client.get(u).middleware(..).build())`
    BuiltSend,
    /// `client.send(built.clone())` - a copy of a request is that request (without its body)
    ClonedSend,
    /// `client.recv_bytes(built)`
    Recv,
}
#[derive(Debug, Clone, Copy, PartialEq, Eq, Hash, Serialize, Deserialize)]
pub enum Api {
    CapabilitySend,
    CapabilityAsync,
    CommandBuild,
}
#[derive(Debug, Clone, PartialEq, Eq, Hash, Serialize, Deserialize)]
pub enum Answer {
    Status(u16, Option<String>),
    IoError,
}
#[derive(Debug, Clone, PartialEq, Eq, Hash, Serialize, Deserialize)]
pub struct Case {
    pub api: Api,
    /// client-level middleware (attached through the verif hook; capability APIs only)
    #[serde(default)]
    pub client_mws: Vec<Mw>,
    pub mws: Vec<Mw>,
    pub start: String,
    pub body: Vec<u8>,
    pub graph: BTreeMap<String, Answer>,
    /// method of the app's request (index into METHODS; 0 = POST)
    #[serde(default)]
    pub method: u8,
    /// how the body is given: 0 = body_bytes, 1 = a reader of known length, 2 = a reader of unknown length
    #[serde(default)]
    pub reader: u8,
}
fn body_of(c: &Case) -> crux_http::http::Body {
    let cursor = futures_util::io::Cursor::new(c.body.clone());
    match c.reader % 3 {
        0 => crux_http::http::Body::from_bytes(c.body.clone()),
        1 => crux_http::http::Body::from_reader(cursor, Some(c.body.len())),
        _ => crux_http::http::Body::from_reader(cursor, None),
    }
}
pub const METHODS: [&str; 6] = ["POST", "GET", "PUT", "DELETE", "PATCH", "OPTIONS"];
fn method_of(c: &Case) -> crux_http::http::Method {
    METHODS[c.method as usize % METHODS.len()].parse().unwrap()
}
fn sub_idx(parent: usize, j: usize) -> usize {
    100 + 10 * parent + j
}

type Log = Arc<Mutex<Vec<String>>>;

struct Mark {
    idx: usize,
    kind: Mw,
    log: Log,
}
#[async_trait::async_trait]
impl Middleware for Mark {
    async fn handle(&self, mut req: Request, client: Client, next: Next<'_>) -> HResult<ResponseAsync> {
        self.log.lock().unwrap().push(format!("enter {}", self.idx));
        let r = match &self.kind {
            Mw::ShortCircuit(s) => Ok(crux_http::http::Response::new(*s).into()),
            Mw::Issue(u) => {
                let _ = client.get(u).await;
                next.run(req, client).await
            }
            Mw::AddHeader => {
                req.append_header("x-mw", self.idx.to_string().as_str());
                next.run(req, client).await
            }
            Mw::Retry(n) => {
                for _ in 0..*n {
                    let _ = next.run(req.clone(), client.clone()).await;
                }
                next.run(req, client).await
            }
            Mw::IssueWith { url, via, sub } => {
                let mut b = client.get(url);
                for (j, m) in sub.iter().enumerate() {
                    b = match m {
                        Mw::Redirect(a) => b.middleware(Redirect::new(*a)),
                        k => b.middleware(Mark { idx: sub_idx(self.idx, j), kind: k.clone(), log: self.log.clone() }),
                    };
                }
                match via {
                    Via::Await => drop(b.await),
                    Via::BuiltSend => drop(client.send(b.build()).await),
                    Via::ClonedSend => {
                        let built = b.build();
                        drop(client.send(built.clone()).await)
                    }
                    Via::Recv => drop(client.recv_bytes(b.build()).await),
                }
                next.run(req, client).await
            }
            _ => next.run(req, client).await,
        };
        self.log.lock().unwrap().push(format!("exit {}", self.idx));
        r
    }
}

thread_local! {
    static CASE: std::cell::RefCell<Option<(Case, Log)>> = const { std::cell::RefCell::new(None) };
    static OUT: std::cell::RefCell<Vec<String>> = const { std::cell::RefCell::new(vec![]) };
}

pub enum Event {
    Go,
    Done(HResult<crux_http::Response<Vec<u8>>>),
    DoneAsync(Result<u16, String>),
}
#[derive(Effect)]
#[allow(dead_code)]
pub struct Capabilities {
    pub http: crux_http::Http<Event>,
    pub render: Render<Event>,
    #[effect(skip)]
    pub compose: Compose<Event>,
}
#[derive(Default)]
pub struct App;

macro_rules! attach {
    ($b:expr, $c:expr, $log:expr) => {{
        let mut b = $b;
        for (idx, m) in $c.mws.iter().enumerate() {
            let idx = idx + $c.client_mws.len();
            b = match m {
                Mw::Redirect(a) => b.middleware(Redirect::new(*a)),
                k => b.middleware(Mark { idx, kind: k.clone(), log: $log.clone() }),
            };
        }
        b
    }};
}

fn outcome_of(r: &HResult<crux_http::Response<Vec<u8>>>) -> String {
    match r {
        Ok(r) => format!("ok {}", u16::from(r.status())),
        Err(HttpError::Http { code, .. }) => format!("http-error {}", u16::from(*code)),
        Err(HttpError::Io(_)) => "io-error".into(),
        Err(HttpError::Url(_)) => "url-error".into(),
        Err(_) => "other-error".into(),
    }
}

impl crux_core::App for App {
    type Event = Event;
    type Model = ();
    type ViewModel = ();
    type Capabilities = Capabilities;
    type Effect = Effect;
    fn update(&self, ev: Event, _: &mut (), caps: &Capabilities) -> Command<Effect, Event> {
        match ev {
            Event::Go => {
                let (c, log) = CASE.with(|c| c.borrow().clone().unwrap());
                let mut http = caps.http.clone();
                for (idx, m) in c.client_mws.iter().enumerate() {
                    http = match m {
                        Mw::Redirect(a) => http.verif_with_client_middleware(Redirect::new(*a)),
                        k => http.verif_with_client_middleware(Mark { idx, kind: k.clone(), log: log.clone() }),
                    };
                }
                match c.api {
                    Api::CapabilitySend => {
                        attach!(http.request(method_of(&c), c.start.parse().unwrap()).header("x-orig", "1").body(body_of(&c)), c, log).send(Event::Done);
                        Command::done()
                    }
                    Api::CapabilityAsync => {
                        let fut = attach!(http.request(method_of(&c), c.start.parse().unwrap()).header("x-orig", "1").body(body_of(&c)), c, log).send_async();
                        caps.compose.spawn(|ctx| async move {
                            let r = fut.await;
                            ctx.update_app(Event::DoneAsync(match r {
                                Ok(r) => Ok(u16::from(r.status())),
                                Err(HttpError::Io(_)) => Err("io-error".into()),
                                Err(HttpError::Url(_)) => Err("url-error".into()),
                                Err(HttpError::Http { code, .. }) => Err(format!("http-error {}", u16::from(code))),
                                Err(_) => Err("other-error".into()),
                            }));
                        });
                        Command::done()
                    }
                    Api::CommandBuild => attach!(crux_http::command::Http::<Effect, Event>::request(method_of(&c), c.start.parse().unwrap()).header("x-orig", "1").body(body_of(&c)), c, log).build().then_send(Event::Done),
                }
            }
            Event::Done(r) => {
                OUT.with(|o| o.borrow_mut().push(outcome_of(&r)));
                Command::done()
            }
            Event::DoneAsync(r) => {
                OUT.with(|o| o.borrow_mut().push(match r {
                    Ok(s) => format!("ok {s}"),
                    Err(e) => e,
                }));
                Command::done()
            }
        }
    }
    fn view(&self, _: &()) {}
}

/// one request as the shell saw it
#[derive(Debug, Clone, PartialEq, Eq, Serialize)]
pub struct Wire {
    pub method: String,
    pub url: String,
    pub body_len: usize,
    pub marks: Vec<String>,
    /// carries the header the app put on its own request
    pub orig: bool,
}

#[derive(Debug, Clone, PartialEq, Eq)]
pub struct Run {
    pub wire: Vec<Wire>,
    pub outcomes: Vec<String>,
    pub log: Vec<String>,
}

fn serve(c: &Case, url: &str) -> HttpResult {
    match c.graph.get(url) {
        None => HttpResult::Ok(HttpResponse::ok().build()),
        Some(Answer::IoError) => HttpResult::Err(HttpError::Io("down".into())),
        Some(Answer::Status(s, loc)) => {
            let mut b = HttpResponse::status(*s);
            if let Some(l) = loc {
                b.header("location", l.as_str());
            }
            HttpResult::Ok(b.build())
        }
    }
}

pub fn observe(c: &Case, max_effects: usize) -> Result<Run, String> {
    let log: Log = Arc::new(Mutex::new(vec![]));
    CASE.with(|x| *x.borrow_mut() = Some((c.clone(), log.clone())));
    OUT.with(|o| o.borrow_mut().clear());
    let wire = catch(|| {
        let core: Core<App> = Core::new();
        let mut wire = vec![];
        let mut queue: std::collections::VecDeque<Effect> = core.process_event(Event::Go).into();
        let mut steps = 0;
        while let Some(e) = queue.pop_front() {
            steps += 1;
            if steps > max_effects {
                return Err(format!("more than {max_effects} effects for one request"));
            }
            let Effect::Http(mut req) = e else { continue };
            let op: HttpRequest = req.operation.clone();
            wire.push(Wire { method: op.method.clone(), url: op.url.clone(), body_len: op.body.len(), marks: op.headers.iter().filter(|h| h.name.eq_ignore_ascii_case("x-mw")).map(|h| h.value.clone()).collect(), orig: op.headers.iter().any(|h| h.name.eq_ignore_ascii_case("x-orig") && h.value == "1") });
            let more = core.resolve(&mut req, serve(c, &op.url)).map_err(|e| format!("resolve rejected: {e:?}"))?;
            queue.extend(more);
        }
        Ok(wire)
    })??;
    let outcomes = OUT.with(|o| o.borrow().clone());
    let log = log.lock().unwrap().clone();
    Ok(Run { wire, outcomes, log })
}

const REDIRECT_CODES: [u16; 5] = [301, 302, 303, 307, 308];

pub struct Model {
    pub run: Run,
    /// a redirect status without a Location header was met while probing: the statement leaves the
    /// behaviour open, only the bounds are checked
    pub unspecified: bool,
}

/// Reference semantics, written from the statement and the documentation: a chain is client
/// middleware, then per-request middleware, then the shell; every middleware sees the request the
/// previous one passed on and may run the rest of the chain any number of times; requests a
/// middleware issues through the client it was given pass through their own per-request
/// middleware only. `stale_base` reproduces the pinned tree's treatment of relative Locations
/// (resolved against the last *absolute* URL) and is used only to name that finding.
#[derive(Clone)]
struct Req {
    method: String,
    url: String,
    body_len: usize,
    marks: Vec<String>,
    orig: bool,
}
struct Sem<'a> {
    c: &'a Case,
    wire: Vec<Wire>,
    log: Vec<String>,
    unspecified: bool,
    stale_base: bool,
}
impl Sem<'_> {
    fn answer(&self, url: &str) -> Result<(u16, Option<String>), String> {
        match self.c.graph.get(url) {
            None => Ok((200, None)),
            Some(Answer::IoError) => Err("io-error".into()),
            Some(Answer::Status(s, l)) => Ok((*s, l.clone())),
        }
    }
    fn shell(&mut self, r: &Req) -> Result<(u16, Option<String>), String> {
        self.wire.push(Wire { method: r.method.clone(), url: r.url.clone(), body_len: r.body_len, marks: r.marks.clone(), orig: r.orig });
        self.answer(&r.url)
    }
    fn run(&mut self, chain: &[(usize, Mw)], mut req: Req) -> Result<u16, String> {
        let Some(((idx, m), rest)) = chain.split_first() else {
            return self.shell(&req).map(|(s, _)| s);
        };
        let idx = *idx;
        if let Mw::Redirect(attempts) = m {
            let mut base = req.url.clone();
            let mut n = 0u8;
            while n < *attempts {
                n += 1;
                // probes: body-less copies sent through the inner client (no middleware)
                let (s, loc) = self.shell(&Req { body_len: 0, ..req.clone() })?;
                if !REDIRECT_CODES.contains(&s) {
                    break;
                }
                match loc {
                    None => self.unspecified = true,
                    Some(l) => {
                        let next = match url::Url::parse(&l) {
                            Ok(u) => {
                                base = u.to_string();
                                Ok(u)
                            }
                            Err(url::ParseError::RelativeUrlWithoutBase) => url::Url::parse(if self.stale_base { &base } else { &req.url }).unwrap().join(&l),
                            Err(e) => Err(e),
                        };
                        match next {
                            Ok(u) => req.url = u.to_string(),
                            Err(_) => return Err("url-error".into()),
                        }
                    }
                }
            }
            return self.run(rest, req);
        }
        self.log.push(format!("enter {idx}"));
        let r = match m {
            Mw::ShortCircuit(s) => Ok(*s),
            Mw::Issue(u) => {
                let _ = self.shell(&Req { method: "GET".into(), url: u.clone(), body_len: 0, marks: vec![], orig: false });
                self.run(rest, req)
            }
            Mw::AddHeader => {
                req.marks.push(idx.to_string());
                self.run(rest, req)
            }
            Mw::Retry(n) => {
                for _ in 0..*n {
                    let _ = self.run(rest, Req { body_len: 0, ..req.clone() });
                }
                self.run(rest, req)
            }
            Mw::IssueWith { url, sub, .. } => {
                let sub: Vec<(usize, Mw)> = sub.iter().cloned().enumerate().map(|(j, m)| (sub_idx(idx, j), m)).collect();
                let _ = self.run(&sub, Req { method: "GET".into(), url: url.clone(), body_len: 0, marks: vec![], orig: false });
                self.run(rest, req)
            }
            Mw::Pass | Mw::Redirect(_) => self.run(rest, req),
        };
        self.log.push(format!("exit {idx}"));
        r
    }
}

pub fn model(c: &Case, ignore_middleware: bool, stale_base: bool) -> Model {
    // documented order: client middleware first, then per-request middleware, then the shell
    let chain: Vec<Mw> = if c.api == Api::CommandBuild { c.mws.clone() } else { c.client_mws.iter().chain(c.mws.iter()).cloned().collect() };
    let chain: Vec<(usize, Mw)> = if ignore_middleware { vec![] } else { chain.into_iter().enumerate().collect() };
    let mut sem = Sem { c, wire: vec![], log: vec![], unspecified: false, stale_base };
    let result = sem.run(&chain, Req { method: METHODS[c.method as usize % METHODS.len()].into(), url: c.start.clone(), body_len: c.body.len(), marks: vec![], orig: true });
    let outcome = match (c.api, result) {
        (_, Err(e)) => e,
        (Api::CapabilityAsync, Ok(s)) => format!("ok {s}"),
        (_, Ok(s)) if s >= 400 => format!("http-error {s}"),
        (_, Ok(s)) => format!("ok {s}"),
    };
    Model { run: Run { wire: sem.wire, outcomes: vec![outcome], log: sem.log }, unspecified: sem.unspecified }
}

pub fn judge(c: &Case) -> Result<(), (String, String)> {
    let want = model(c, false, false);
    let got = observe(c, 2 * want.run.wire.len() + 2000).map_err(|p| ("panic".to_string(), format!("sending the request failed: {p}")))?;
    if got == want.run {
        return Ok(());
    }
    if want.unspecified {
        // bounds only: at most `attempts` probes per Redirect, exactly one outcome
        // the reference keeps probing the unchanged URL until the attempts are used up, which is the most any reading allows
        // ... and, however many probes a reading spends on the Location-less answer, the URL does not change any
        // more: the original request, with its body, still goes where the reference sends it ("and then sends the
        // original request with its body to the final URL")
        let budget: usize = want.run.wire.len();
        let real = |r: &Run| r.wire.iter().filter(|w| w.body_len > 0).cloned().collect::<Vec<_>>();
        if got.outcomes.len() == 1 && got.wire.len() <= budget && real(&got) == real(&want.run) {
            return Ok(());
        }
        return Err(("redirect-bounds".into(), format!("{} requests and outcomes {:?}; the budget of the stack is {budget} requests and one outcome", got.wire.len(), got.outcomes)));
    }
    if c.api == Api::CommandBuild && !c.mws.is_empty() && got == model(c, true, false).run {
        return Err(("command-api-ignores-middleware".into(), format!("the command API sent the request as if no middleware were attached ({} attached, none entered)", c.mws.len())));
    }
    if got == model(c, false, true).run {
        return Err(("redirect-relative-base-stale".into(), format!("a relative Location was resolved against an earlier URL: requests {:?}, expected {:?}", got.wire.iter().map(|w| &w.url).collect::<Vec<_>>(), want.run.wire.iter().map(|w| &w.url).collect::<Vec<_>>())));
    }
    let what = if got.log != want.run.log {
        format!("middleware entered/left as {:?}, the documented order gives {:?}", got.log, want.run.log)
    } else if got.wire != want.run.wire {
        format!("the shell saw {:?}, expected {:?}", got.wire, want.run.wire)
    } else {
        format!("outcomes {:?}, expected {:?}", got.outcomes, want.run.outcomes)
    };
    Err(("mismatch".into(), what))
}

const URLS: &[&str] = &["http://h/a", "http://h/b/c", "http://h/d/e/f", "http://g/x", "http://h/b/q?z=1", "http://h/b/c2", "http://h/d/e/c2", "http://h/root"];
const LOCS: &[&str] = &["http://h/b/c", "http://g/x", "c2", "../up", "/root", "?q=2", "http://h/a", "http://[bad", "d/e/f", "http://h/d/e/f", "//g/x", ""];

pub fn strategy() -> BoxedStrategy<Case> {
    let leaf = prop_oneof![
        3 => Just(Mw::Pass),
        1 => prop_oneof![Just(200u16), Just(404), Just(302)].prop_map(Mw::ShortCircuit),
        2 => prop_oneof![Just("http://side/"), Just("http://h/a")].prop_map(|s| Mw::Issue(s.to_string())),
        2 => Just(Mw::AddHeader),
        3 => prop_oneof![4 => 0u8..5, 1 => Just(255u8), 1 => 5u8..40].prop_map(Mw::Redirect),
    ];
    let via = prop_oneof![Just(Via::Await), Just(Via::BuiltSend), Just(Via::ClonedSend), Just(Via::Recv)];
    let mw = prop_oneof![
        12 => leaf.clone(),
        1 => (1u8..3).prop_map(Mw::Retry),
        2 => (prop::sample::select(URLS), via, prop::collection::vec(leaf, 0..3)).prop_map(|(u, via, sub)| Mw::IssueWith { url: u.to_string(), via, sub }),
    ];
    let answer = prop_oneof![
        2 => prop_oneof![Just(200u16), Just(204), Just(304), Just(404), Just(500)].prop_map(|s| Answer::Status(s, None)),
        6 => (prop::sample::select(&REDIRECT_CODES[..]), proptest::option::weighted(0.9, prop::sample::select(LOCS))).prop_map(|(s, l)| Answer::Status(s, l.map(str::to_string))),
        1 => (Just(200u16), prop::sample::select(LOCS)).prop_map(|(s, l)| Answer::Status(s, Some(l.to_string()))),
        1 => Just(Answer::IoError),
    ];
    let graph = prop::collection::btree_map(prop::sample::select(URLS).prop_map(str::to_string), answer, 0..8);
    // chains of relative hops on purpose: a → d/e/f (relative) → c2 (relative)
    let relative_chain = Just(BTreeMap::from([
        ("http://h/a".to_string(), Answer::Status(302, Some("d/e/f".into()))),
        ("http://h/d/e/f".to_string(), Answer::Status(307, Some("c2".into()))),
    ]));
    let graph = prop_oneof![4 => graph.clone(), 1 => (graph, relative_chain).prop_map(|(mut g, r)| { g.extend(r); g })];
    (
        prop_oneof![Just(Api::CapabilitySend), Just(Api::CapabilityAsync), Just(Api::CommandBuild)],
        prop::collection::vec(mw.clone(), 0..3),
        prop::collection::vec(mw, 0..5),
        prop::sample::select(URLS).prop_map(str::to_string),
        prop::collection::vec(any::<u8>(), 1..6),
        graph,
        prop_oneof![3 => Just(0u8), 2 => 1u8..6],
        prop_oneof![3 => Just(0u8), 1 => Just(1u8), 1 => Just(2u8)],
    )
        .prop_map(|(api, client_mws, mws, start, body, graph, method, reader)| Case { client_mws: if api == Api::CommandBuild { vec![] } else { client_mws }, api, mws, start, body, graph, method, reader })
        .boxed()
}

fn reproducer(sig: &str) -> Option<Case> {
    let chain = BTreeMap::from([("http://h/a".to_string(), Answer::Status(302, Some("d/e/f".into()))), ("http://h/d/e/f".to_string(), Answer::Status(307, Some("c2".into())))]);
    match sig {
        "command-api-ignores-middleware" => Some(Case { api: Api::CommandBuild, client_mws: vec![], mws: vec![Mw::AddHeader], start: "http://h/a".into(), body: b"x".to_vec(), graph: BTreeMap::new(), method: 0, reader: 0 }),
        "redirect-relative-base-stale" => Some(Case { api: Api::CapabilitySend, client_mws: vec![], mws: vec![Mw::Redirect(3)], start: "http://h/a".into(), body: b"x".to_vec(), graph: chain, method: 0, reader: 0 }),
        _ => None,
    }
}

fn redirect_depth(c: &Case) -> (usize, bool) {
    // length of the followed chain from the start URL and whether it has a relative hop
    let (mut url, mut n, mut rel) = (c.start.clone(), 0, false);
    while n < 6 {
        match c.graph.get(&url) {
            Some(Answer::Status(s, Some(l))) if REDIRECT_CODES.contains(s) => {
                rel |= url::Url::parse(l).is_err();
                match url::Url::parse(&url).unwrap().join(l) {
                    Ok(u) => url = u.to_string(),
                    Err(_) => break,
                }
                n += 1;
            }
            _ => break,
        }
    }
    (n, rel)
}

pub fn main(mode: Mode) {
    let prop = "C16";
    let known = vkit::known_findings(prop);
    let stats = Stats::new();
    let check = |c: &Case| -> Result<(), String> {
        let kinds: std::collections::HashSet<_> = c.client_mws.iter().chain(c.mws.iter()).map(std::mem::discriminant).collect();
        let has_redirect = c.client_mws.iter().chain(c.mws.iter()).any(|m| matches!(m, Mw::Redirect(a) if *a >= 2));
        let (depth, rel) = redirect_depth(c);
        let nt = kinds.len() >= 2 || (has_redirect && depth >= 2 && rel);
        let labels = [
            match c.api {
                Api::CapabilitySend => "api:capability-send",
                Api::CapabilityAsync => "api:capability-async",
                Api::CommandBuild => "api:command-build",
            },
            if has_redirect && depth >= 2 { "redirect:chain>=2" } else if has_redirect && depth == 1 { "redirect:chain=1" } else { "redirect:none-followed" },
            if c.mws.len() >= 2 { "stack:>=2" } else { "stack:<2" },
            if !c.client_mws.is_empty() && !c.mws.is_empty() { "stack:client+request" } else { "stack:one-level" },
            if c.client_mws.iter().chain(c.mws.iter()).any(|m| matches!(m, Mw::Retry(_))) { "mw:retry" } else { "mw:no-retry" },
            match c.client_mws.iter().chain(c.mws.iter()).find_map(|m| if let Mw::IssueWith { via, sub, .. } = m { Some((*via, sub.len())) } else { None }) {
                Some((Via::ClonedSend, n)) if n > 0 => "issue:cloned-request-with-middleware",
                Some((_, n)) if n > 0 => "issue:request-with-middleware",
                Some(_) => "issue:bare",
                None => "issue:none",
            },
            if c.method == 0 { "method:post" } else { "method:other" },
            match c.reader % 3 {
                0 => "body:bytes",
                1 => "body:reader-of-known-length",
                _ => "body:reader-of-unknown-length",
            },
        ];
        match judge(c) {
            Ok(()) => {
                stats.case(c, nt, &labels);
                if nt && stats.wants_sample() {
                    stats.sample(|| serde_json::to_value(c).unwrap());
                }
                Ok(())
            }
            Err((sig, why)) => {
                if vkit::is_known(&known, &sig) && reproducer(&sig).is_some() {
                    stats.case(c, nt, &labels);
                    stats.excluded_known(&sig);
                    Ok(())
                } else {
                    Err(format!("[{sig}] {why}"))
                }
            }
        }
    };
    match mode {
        Mode::Replay(path) => {
            let res = vkit::read_replay(&path).and_then(|v| serde_json::from_value::<Case>(v).map_err(|e| e.to_string())).and_then(|c| check(&c));
            vkit::finish_replay(prop, &path, res)
        }
        Mode::Run(tier) => {
            let started = std::time::Instant::now();
            for k in &known {
                if let Some(c) = reproducer(&k.sig) {
                    if matches!(judge(&c), Err((s, _)) if s == k.sig) {
                        vkit::print_known_finding(k);
                    }
                }
            }
            let mut replayed = 0;
            for f in vkit::replay_files(prop) {
                replayed += 1;
                if let Err(why) = vkit::read_replay(&f).and_then(|v| serde_json::from_value::<Case>(v).map_err(|e| e.to_string())).and_then(|c| check(&c)) {
                    println!("why: {why}");
                    println!("VIOLATION property={prop} replay={}", f.display());
                    std::process::exit(1);
                }
            }
            let outcome = vkit::run_prop(prop, vkit::workers_for(tier), tier.pick(40_000, 1_000_000), strategy, check);
            let outcome = match outcome {
                Outcome::Held if stats.distinct_nontrivial() < 2 => Outcome::Inconclusive("generator produced no non-trivial case".into()),
                o => o,
            };
            vkit::finish(
                Report {
                    prop,
                    tier,
                    rule: "client-level stacks of 0-2 and per-request stacks of 0-4 middlewares (pass / short-circuit / request-issuing through the inner client, also with 0-2 middlewares of its own on the issued request, sent by await / send(built) / send(clone of built) / recv_bytes / header-adding / retrying = running the rest of the chain 2-3 times / Redirect with attempts 0..=255 at any position), POST, GET, PUT, DELETE, PATCH or OPTIONS with a body (bytes, or a reader of known or unknown length) and a header of the app to one of 8 URLs, a served graph answering each URL with a status and an optional Location (absolute, relative, ../, /rooted, query-only, scheme-relative, empty, invalid, missing) or a shell error, chains of two relative hops built on purpose; capability send, capability send_async and command build; non-trivial = >= 2 middleware kinds in the stack, or a followed chain of >= 2 hops with a relative one under Redirect(>=2); distinct = distinct case",
                    assumptions: vec![
                        "the command API runs per-request middleware since /repo 589ecce (before, it ignored it: fixed finding command-api-ignores-middleware); it has no client-level middleware".into(),
                        "expected URL of a hop = RFC 3986 resolution of Location against the URL that answered (url::Url::join)".into(),
                        "a redirect status without Location is unspecified: only the bounds (probes <= attempts, one real request, one outcome) are checked".into(),
                        "probes are sent through the inner client, i.e. without the remaining middleware, and without the body (documented in the middleware source)".into(),
                        "client-level middleware is attached through the verif hook (it has no public constructor); documented order: client, then request, then shell".into(),
                    ],
                    started,
                    replayed,
                },
                &stats,
                outcome,
            )
        }
    }
}
