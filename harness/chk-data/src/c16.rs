//! C16 — middleware runs in the documented order; redirects are followed exactly and boundedly.
//!
//! Generated: a per-request middleware stack (marker middlewares of four kinds and `Redirect`s at
//! any position), a start URL, a body, and a served redirect graph (status + optional Location of
//! every shape per URL, shell errors), through every API that can send a request.
//! Oracle: a reference written from the statement and the documentation (see `model`).

use crux_core::compose::Compose;
use crux_core::macros::Effect;
use crux_core::render::Render;
use crux_core::{Command, Core};
use crux_http::client::Client;
use crux_http::middleware::{Middleware, Next, Redirect};
use crux_http::protocol::{HttpRequest, HttpResponse, HttpResult};
use crux_http::{HttpError, Request, ResponseAsync, Result as HResult};
use proptest::prelude::*;
use serde::{Deserialize, Serialize};
use std::collections::BTreeMap;
use std::sync::{Arc, Mutex};
use vkit::{panics::catch, Mode, Outcome, Report, Stats};

#[derive(Debug, Clone, PartialEq, Eq, Hash, Serialize, Deserialize)]
pub enum Mw {
    Pass,
    /// answers itself without calling `next`
    ShortCircuit(u16),
    /// issues a request of its own through the inner client, then continues
    Issue(String),
    /// appends a header `x-mw: <index>` and continues
    AddHeader,
    Redirect(u8),
}
#[derive(Debug, Clone, Copy, PartialEq, Eq, Hash, Serialize, Deserialize)]
pub enum Api {
    CapabilitySend,
    CapabilityAsync,
    CommandBuild,
}
#[derive(Debug, Clone, PartialEq, Eq, Hash, Serialize, Deserialize)]
pub enum Answer {
    Status(u16, Option<String>),
    IoError,
}
#[derive(Debug, Clone, PartialEq, Eq, Hash, Serialize, Deserialize)]
pub struct Case {
    pub api: Api,
    /// client-level middleware (attached through the verif hook; capability APIs only)
    #[serde(default)]
    pub client_mws: Vec<Mw>,
    pub mws: Vec<Mw>,
    pub start: String,
    pub body: Vec<u8>,
    pub graph: BTreeMap<String, Answer>,
}

type Log = Arc<Mutex<Vec<String>>>;

struct Mark {
    idx: usize,
    kind: Mw,
    log: Log,
}
#[async_trait::async_trait]
impl Middleware for Mark {
    async fn handle(&self, mut req: Request, client: Client, next: Next<'_>) -> HResult<ResponseAsync> {
        self.log.lock().unwrap().push(format!("enter {}", self.idx));
        let r = match &self.kind {
            Mw::ShortCircuit(s) => Ok(crux_http::http::Response::new(*s).into()),
            Mw::Issue(u) => {
                let _ = client.get(u).await;
                next.run(req, client).await
            }
            Mw::AddHeader => {
                req.append_header("x-mw", self.idx.to_string().as_str());
                next.run(req, client).await
            }
            _ => next.run(req, client).await,
        };
        self.log.lock().unwrap().push(format!("exit {}", self.idx));
        r
    }
}

thread_local! {
    static CASE: std::cell::RefCell<Option<(Case, Log)>> = const { std::cell::RefCell::new(None) };
    static OUT: std::cell::RefCell<Vec<String>> = const { std::cell::RefCell::new(vec![]) };
}

pub enum Event {
    Go,
    Done(HResult<crux_http::Response<Vec<u8>>>),
    DoneAsync(Result<u16, String>),
}
#[derive(Effect)]
#[allow(dead_code)]
pub struct Capabilities {
    pub http: crux_http::Http<Event>,
    pub render: Render<Event>,
    #[effect(skip)]
    pub compose: Compose<Event>,
}
#[derive(Default)]
pub struct App;

macro_rules! attach {
    ($b:expr, $c:expr, $log:expr) => {{
        let mut b = $b;
        for (idx, m) in $c.mws.iter().enumerate() {
            let idx = idx + $c.client_mws.len();
            b = match m {
                Mw::Redirect(a) => b.middleware(Redirect::new(*a)),
                k => b.middleware(Mark { idx, kind: k.clone(), log: $log.clone() }),
            };
        }
        b
    }};
}

fn outcome_of(r: &HResult<crux_http::Response<Vec<u8>>>) -> String {
    match r {
        Ok(r) => format!("ok {}", u16::from(r.status())),
        Err(HttpError::Http { code, .. }) => format!("http-error {}", u16::from(*code)),
        Err(HttpError::Io(_)) => "io-error".into(),
        Err(HttpError::Url(_)) => "url-error".into(),
        Err(_) => "other-error".into(),
    }
}

impl crux_core::App for App {
    type Event = Event;
    type Model = ();
    type ViewModel = ();
    type Capabilities = Capabilities;
    type Effect = Effect;
    fn update(&self, ev: Event, _: &mut (), caps: &Capabilities) -> Command<Effect, Event> {
        match ev {
            Event::Go => {
                let (c, log) = CASE.with(|c| c.borrow().clone().unwrap());
                let mut http = caps.http.clone();
                for (idx, m) in c.client_mws.iter().enumerate() {
                    http = match m {
                        Mw::Redirect(a) => http.verif_with_client_middleware(Redirect::new(*a)),
                        k => http.verif_with_client_middleware(Mark { idx, kind: k.clone(), log: log.clone() }),
                    };
                }
                match c.api {
                    Api::CapabilitySend => {
                        attach!(http.post(&c.start).body_bytes(&c.body), c, log).send(Event::Done);
                        Command::done()
                    }
                    Api::CapabilityAsync => {
                        let fut = attach!(http.post(&c.start).body_bytes(&c.body), c, log).send_async();
                        caps.compose.spawn(|ctx| async move {
                            let r = fut.await;
                            ctx.update_app(Event::DoneAsync(match r {
                                Ok(r) => Ok(u16::from(r.status())),
                                Err(HttpError::Io(_)) => Err("io-error".into()),
                                Err(HttpError::Url(_)) => Err("url-error".into()),
                                Err(HttpError::Http { code, .. }) => Err(format!("http-error {}", u16::from(code))),
                                Err(_) => Err("other-error".into()),
                            }));
                        });
                        Command::done()
                    }
                    Api::CommandBuild => attach!(crux_http::command::Http::<Effect, Event>::post(&c.start).body_bytes(&c.body), c, log).build().then_send(Event::Done),
                }
            }
            Event::Done(r) => {
                OUT.with(|o| o.borrow_mut().push(outcome_of(&r)));
                Command::done()
            }
            Event::DoneAsync(r) => {
                OUT.with(|o| o.borrow_mut().push(match r {
                    Ok(s) => format!("ok {s}"),
                    Err(e) => e,
                }));
                Command::done()
            }
        }
    }
    fn view(&self, _: &()) {}
}

/// one request as the shell saw it
#[derive(Debug, Clone, PartialEq, Eq, Serialize)]
pub struct Wire {
    pub method: String,
    pub url: String,
    pub body_len: usize,
    pub marks: Vec<String>,
}

#[derive(Debug, Clone, PartialEq, Eq)]
pub struct Run {
    pub wire: Vec<Wire>,
    pub outcomes: Vec<String>,
    pub log: Vec<String>,
}

fn serve(c: &Case, url: &str) -> HttpResult {
    match c.graph.get(url) {
        None => HttpResult::Ok(HttpResponse::ok().build()),
        Some(Answer::IoError) => HttpResult::Err(HttpError::Io("down".into())),
        Some(Answer::Status(s, loc)) => {
            let mut b = HttpResponse::status(*s);
            if let Some(l) = loc {
                b.header("location", l.as_str());
            }
            HttpResult::Ok(b.build())
        }
    }
}

pub fn observe(c: &Case) -> Result<Run, String> {
    let log: Log = Arc::new(Mutex::new(vec![]));
    CASE.with(|x| *x.borrow_mut() = Some((c.clone(), log.clone())));
    OUT.with(|o| o.borrow_mut().clear());
    let wire = catch(|| {
        let core: Core<App> = Core::new();
        let mut wire = vec![];
        let mut queue: std::collections::VecDeque<Effect> = core.process_event(Event::Go).into();
        let mut steps = 0;
        while let Some(e) = queue.pop_front() {
            steps += 1;
            if steps > 2000 {
                return Err("more than 2000 effects for one request".to_string());
            }
            let Effect::Http(mut req) = e else { continue };
            let op: HttpRequest = req.operation.clone();
            wire.push(Wire { method: op.method.clone(), url: op.url.clone(), body_len: op.body.len(), marks: op.headers.iter().filter(|h| h.name.eq_ignore_ascii_case("x-mw")).map(|h| h.value.clone()).collect() });
            let more = core.resolve(&mut req, serve(c, &op.url)).map_err(|e| format!("resolve rejected: {e:?}"))?;
            queue.extend(more);
        }
        Ok(wire)
    })??;
    let outcomes = OUT.with(|o| o.borrow().clone());
    let log = log.lock().unwrap().clone();
    Ok(Run { wire, outcomes, log })
}

const REDIRECT_CODES: [u16; 5] = [301, 302, 303, 307, 308];

pub struct Model {
    pub run: Run,
    /// a redirect status without a Location header was met while probing: the statement leaves the
    /// behaviour open, only the bounds are checked
    pub unspecified: bool,
}

/// Reference semantics. `stale_base` reproduces the pinned tree's treatment of relative
/// Locations (resolved against the last *absolute* URL) and is used only to name that finding.
pub fn model(c: &Case, ignore_middleware: bool, stale_base: bool) -> Model {
    let mut wire = vec![];
    let mut log = vec![];
    let mut unspecified = false;
    let answer = |url: &str| -> Result<(u16, Option<String>), String> {
        match c.graph.get(url) {
            None => Ok((200, None)),
            Some(Answer::IoError) => Err("io-error".into()),
            Some(Answer::Status(s, l)) => Ok((*s, l.clone())),
        }
    };
    // documented order: client middleware first, then per-request middleware, then the shell
    let chain: Vec<Mw> = if c.api == Api::CommandBuild { c.mws.clone() } else { c.client_mws.iter().chain(c.mws.iter()).cloned().collect() };
    let mws: &[Mw] = if ignore_middleware { &[] } else { &chain };
    // walk the chain; a middleware either continues (next index) or returns
    let mut url = c.start.clone();
    let mut marks: Vec<String> = vec![];
    let mut entered: Vec<usize> = vec![];
    let mut result: Option<Result<u16, String>> = None;
    for (idx, m) in mws.iter().enumerate() {
        match m {
            Mw::Redirect(attempts) => {
                let mut base = url.clone();
                let mut n = 0u8;
                while n < *attempts {
                    n += 1;
                    wire.push(Wire { method: "POST".into(), url: url.clone(), body_len: 0, marks: marks.clone() });
                    match answer(&url) {
                        Err(e) => {
                            result = Some(Err(e));
                            break;
                        }
                        Ok((s, loc)) if REDIRECT_CODES.contains(&s) => match loc {
                            None => unspecified = true,
                            Some(l) => {
                                let next = match url::Url::parse(&l) {
                                    Ok(u) => {
                                        base = u.to_string();
                                        Ok(u)
                                    }
                                    Err(url::ParseError::RelativeUrlWithoutBase) => url::Url::parse(if stale_base { &base } else { &url }).unwrap().join(&l),
                                    Err(e) => Err(e),
                                };
                                match next {
                                    Ok(u) => url = u.to_string(),
                                    Err(_) => {
                                        result = Some(Err("url-error".into()));
                                        break;
                                    }
                                }
                            }
                        },
                        Ok(_) => break,
                    }
                }
                if result.is_some() {
                    break;
                }
            }
            k => {
                log.push(format!("enter {idx}"));
                entered.push(idx);
                match k {
                    Mw::ShortCircuit(s) => {
                        result = Some(Ok(*s));
                        break;
                    }
                    Mw::Issue(u) => wire.push(Wire { method: "GET".into(), url: u.clone(), body_len: 0, marks: vec![] }),
                    Mw::AddHeader => marks.push(idx.to_string()),
                    _ => {}
                }
            }
        }
    }
    let result = match result {
        Some(r) => r,
        None => {
            wire.push(Wire { method: "POST".into(), url: url.clone(), body_len: c.body.len(), marks: marks.clone() });
            answer(&url).map(|(s, _)| s)
        }
    };
    for idx in entered.iter().rev() {
        log.push(format!("exit {idx}"));
    }
    let outcome = match (c.api, result) {
        (_, Err(e)) => e,
        (Api::CapabilityAsync, Ok(s)) => format!("ok {s}"),
        (_, Ok(s)) if s >= 400 => format!("http-error {s}"),
        (_, Ok(s)) => format!("ok {s}"),
    };
    Model { run: Run { wire, outcomes: vec![outcome], log }, unspecified }
}

pub fn judge(c: &Case) -> Result<(), (String, String)> {
    let got = observe(c).map_err(|p| ("panic".to_string(), format!("sending the request failed: {p}")))?;
    let want = model(c, false, false);
    if got == want.run {
        return Ok(());
    }
    if want.unspecified {
        // bounds only: at most `attempts` probes per Redirect, exactly one outcome
        let budget: usize = c.client_mws.iter().chain(c.mws.iter()).map(|m| if let Mw::Redirect(a) = m { *a as usize } else { 0 }).sum::<usize>() + c.client_mws.iter().chain(c.mws.iter()).filter(|m| matches!(m, Mw::Issue(_))).count() + 1;
        if got.outcomes.len() == 1 && got.wire.len() <= budget && got.wire.iter().filter(|w| w.body_len > 0).count() <= 1 {
            return Ok(());
        }
        return Err(("redirect-bounds".into(), format!("{} requests and outcomes {:?}; the budget of the stack is {budget} requests and one outcome", got.wire.len(), got.outcomes)));
    }
    if c.api == Api::CommandBuild && !c.mws.is_empty() && got == model(c, true, false).run {
        return Err(("command-api-ignores-middleware".into(), format!("the command API sent the request as if no middleware were attached ({} attached, none entered)", c.mws.len())));
    }
    if got == model(c, false, true).run {
        return Err(("redirect-relative-base-stale".into(), format!("a relative Location was resolved against an earlier URL: requests {:?}, expected {:?}", got.wire.iter().map(|w| &w.url).collect::<Vec<_>>(), want.run.wire.iter().map(|w| &w.url).collect::<Vec<_>>())));
    }
    let what = if got.log != want.run.log {
        format!("middleware entered/left as {:?}, the documented order gives {:?}", got.log, want.run.log)
    } else if got.wire != want.run.wire {
        format!("the shell saw {:?}, expected {:?}", got.wire, want.run.wire)
    } else {
        format!("outcomes {:?}, expected {:?}", got.outcomes, want.run.outcomes)
    };
    Err(("mismatch".into(), what))
}

const URLS: &[&str] = &["http://h/a", "http://h/b/c", "http://h/d/e/f", "http://g/x", "http://h/b/q?z=1", "http://h/b/c2", "http://h/d/e/c2", "http://h/root"];
const LOCS: &[&str] = &["http://h/b/c", "http://g/x", "c2", "../up", "/root", "?q=2", "http://h/a", "http://[bad", "d/e/f", "http://h/d/e/f", "//g/x", ""];

pub fn strategy() -> BoxedStrategy<Case> {
    let mw = prop_oneof![
        3 => Just(Mw::Pass),
        1 => prop_oneof![Just(200u16), Just(404), Just(302)].prop_map(Mw::ShortCircuit),
        2 => prop_oneof![Just("http://side/"), Just("http://h/a")].prop_map(|s| Mw::Issue(s.to_string())),
        2 => Just(Mw::AddHeader),
        3 => prop_oneof![4 => 0u8..5, 1 => Just(255u8), 1 => 5u8..40].prop_map(Mw::Redirect),
    ];
    let answer = prop_oneof![
        2 => prop_oneof![Just(200u16), Just(204), Just(304), Just(404), Just(500)].prop_map(|s| Answer::Status(s, None)),
        6 => (prop::sample::select(&REDIRECT_CODES[..]), proptest::option::weighted(0.9, prop::sample::select(LOCS))).prop_map(|(s, l)| Answer::Status(s, l.map(str::to_string))),
        1 => (Just(200u16), prop::sample::select(LOCS)).prop_map(|(s, l)| Answer::Status(s, Some(l.to_string()))),
        1 => Just(Answer::IoError),
    ];
    let graph = prop::collection::btree_map(prop::sample::select(URLS).prop_map(str::to_string), answer, 0..8);
    // chains of relative hops on purpose: a → d/e/f (relative) → c2 (relative)
    let relative_chain = Just(BTreeMap::from([
        ("http://h/a".to_string(), Answer::Status(302, Some("d/e/f".into()))),
        ("http://h/d/e/f".to_string(), Answer::Status(307, Some("c2".into()))),
    ]));
    let graph = prop_oneof![4 => graph.clone(), 1 => (graph, relative_chain).prop_map(|(mut g, r)| { g.extend(r); g })];
    (
        prop_oneof![Just(Api::CapabilitySend), Just(Api::CapabilityAsync), Just(Api::CommandBuild)],
        prop::collection::vec(mw.clone(), 0..3),
        prop::collection::vec(mw, 0..5),
        prop::sample::select(URLS).prop_map(str::to_string),
        prop::collection::vec(any::<u8>(), 1..6),
        graph,
    )
        .prop_map(|(api, client_mws, mws, start, body, graph)| Case { client_mws: if api == Api::CommandBuild { vec![] } else { client_mws }, api, mws, start, body, graph })
        .boxed()
}

fn reproducer(sig: &str) -> Option<Case> {
    let chain = BTreeMap::from([("http://h/a".to_string(), Answer::Status(302, Some("d/e/f".into()))), ("http://h/d/e/f".to_string(), Answer::Status(307, Some("c2".into())))]);
    match sig {
        "command-api-ignores-middleware" => Some(Case { api: Api::CommandBuild, client_mws: vec![], mws: vec![Mw::AddHeader], start: "http://h/a".into(), body: b"x".to_vec(), graph: BTreeMap::new() }),
        "redirect-relative-base-stale" => Some(Case { api: Api::CapabilitySend, client_mws: vec![], mws: vec![Mw::Redirect(3)], start: "http://h/a".into(), body: b"x".to_vec(), graph: chain }),
        _ => None,
    }
}

fn redirect_depth(c: &Case) -> (usize, bool) {
    // length of the followed chain from the start URL and whether it has a relative hop
    let (mut url, mut n, mut rel) = (c.start.clone(), 0, false);
    while n < 6 {
        match c.graph.get(&url) {
            Some(Answer::Status(s, Some(l))) if REDIRECT_CODES.contains(s) => {
                rel |= url::Url::parse(l).is_err();
                match url::Url::parse(&url).unwrap().join(l) {
                    Ok(u) => url = u.to_string(),
                    Err(_) => break,
                }
                n += 1;
            }
            _ => break,
        }
    }
    (n, rel)
}

pub fn main(mode: Mode) {
    let prop = "C16";
    let known = vkit::known_findings(prop);
    let stats = Stats::new();
    let check = |c: &Case| -> Result<(), String> {
        let kinds: std::collections::HashSet<_> = c.client_mws.iter().chain(c.mws.iter()).map(std::mem::discriminant).collect();
        let has_redirect = c.client_mws.iter().chain(c.mws.iter()).any(|m| matches!(m, Mw::Redirect(a) if *a >= 2));
        let (depth, rel) = redirect_depth(c);
        let nt = kinds.len() >= 2 || (has_redirect && depth >= 2 && rel);
        let labels = [
            match c.api {
                Api::CapabilitySend => "api:capability-send",
                Api::CapabilityAsync => "api:capability-async",
                Api::CommandBuild => "api:command-build",
            },
            if has_redirect && depth >= 2 { "redirect:chain>=2" } else if has_redirect && depth == 1 { "redirect:chain=1" } else { "redirect:none-followed" },
            if c.mws.len() >= 2 { "stack:>=2" } else { "stack:<2" },
            if !c.client_mws.is_empty() && !c.mws.is_empty() { "stack:client+request" } else { "stack:one-level" },
        ];
        match judge(c) {
            Ok(()) => {
                stats.case(c, nt, &labels);
                if nt && stats.wants_sample() {
                    stats.sample(|| serde_json::to_value(c).unwrap());
                }
                Ok(())
            }
            Err((sig, why)) => {
                if vkit::is_known(&known, &sig) && reproducer(&sig).is_some() {
                    stats.case(c, nt, &labels);
                    stats.excluded_known(&sig);
                    Ok(())
                } else {
                    Err(format!("[{sig}] {why}"))
                }
            }
        }
    };
    match mode {
        Mode::Replay(path) => {
            let res = vkit::read_replay(&path).and_then(|v| serde_json::from_value::<Case>(v).map_err(|e| e.to_string())).and_then(|c| check(&c));
            vkit::finish_replay(prop, &path, res)
        }
        Mode::Run(tier) => {
            let started = std::time::Instant::now();
            for k in &known {
                if let Some(c) = reproducer(&k.sig) {
                    if matches!(judge(&c), Err((s, _)) if s == k.sig) {
                        vkit::print_known_finding(k);
                    }
                }
            }
            let mut replayed = 0;
            for f in vkit::replay_files(prop) {
                replayed += 1;
                if let Err(why) = vkit::read_replay(&f).and_then(|v| serde_json::from_value::<Case>(v).map_err(|e| e.to_string())).and_then(|c| check(&c)) {
                    println!("why: {why}");
                    println!("VIOLATION property={prop} replay={}", f.display());
                    std::process::exit(1);
                }
            }
            let outcome = vkit::run_prop(prop, vkit::workers_for(tier), tier.pick(40_000, 1_000_000), strategy, check);
            let outcome = match outcome {
                Outcome::Held if stats.distinct_nontrivial() < 2 => Outcome::Inconclusive("generator produced no non-trivial case".into()),
                o => o,
            };
            vkit::finish(
                Report {
                    prop,
                    tier,
                    rule: "client-level stacks of 0-2 and per-request stacks of 0-4 middlewares (pass / short-circuit / request-issuing through the inner client / header-adding / Redirect with attempts 0..=255 at any position), POST with a body to one of 8 URLs, a served graph answering each URL with a status and an optional Location (absolute, relative, ../, /rooted, query-only, scheme-relative, empty, invalid, missing) or a shell error, chains of two relative hops built on purpose; capability send, capability send_async and command build; non-trivial = >= 2 middleware kinds in the stack, or a followed chain of >= 2 hops with a relative one under Redirect(>=2); distinct = distinct case",
                    assumptions: vec![
                        "expected URL of a hop = RFC 3986 resolution of Location against the URL that answered (url::Url::join)".into(),
                        "a redirect status without Location is unspecified: only the bounds (probes <= attempts, one real request, one outcome) are checked".into(),
                        "probes are sent through the inner client, i.e. without the remaining middleware, and without the body (documented in the middleware source)".into(),
                        "client-level middleware is attached through the verif hook (it has no public constructor); documented order: client, then request, then shell".into(),
                    ],
                    started,
                    replayed,
                },
                &stats,
                outcome,
            )
        }
    }
}
