//! C11 — the core is a deterministic function of its input history.
//!
//! (a) Generated histories (HTTP requests with several headers through both APIs, key-value and
//!     time operations, renders, responses in generated order) are replayed against fresh cores on
//!     fresh threads and in fresh processes; the serialized effect batches (timer ids renamed by
//!     first occurrence) and the serialized view of every call must be identical.
//! (b) Values the API hands out compare equal exactly when their contents are equal: pairs of
//!     responses built independently from the same description (headers inserted in a different
//!     order) must be `==`, pairs differing in one header / value / status / body must be `!=`.

use bincode::Options;
use crux_core::bridge::{Bridge, Request as BridgeRequest};
use crux_core::macros::Effect;
use crux_core::render::Render;
use crux_core::{Command, Core};
use crux_http::protocol::{HttpResponse, HttpResult};
use crux_kv::value::Value;
use crux_kv::{KeyValueOperation, KeyValueResponse, KeyValueResult};
use crux_time::{TimeRequest, TimeResponse, TimerId};
use proptest::prelude::*;
use serde::{Deserialize, Serialize};
use std::collections::BTreeMap;
use std::time::Duration;
use vkit::{panics::catch, Mode, Outcome, Report, Stats};

#[derive(Debug, Clone, PartialEq, Eq, Hash, Serialize, Deserialize)]
pub enum Step {
    Http {
        command_api: bool,
        post: bool,
        url: String,
        headers: Vec<(String, String)>,
        body: Option<Vec<u8>>,
        /// further headers carrying several values under one name
        #[serde(default)]
        multi: Vec<(String, Vec<String>)>,
    },
    KvSet { key: String, value: Vec<u8> },
    KvGet { key: String },
    KvList { prefix: String, cursor: u64 },
    TimeNow,
    TimerAfter { millis: u32, legacy: bool },
    /// clear the `which`-th timer started so far through that API (whether or not it has completed)
    ClearTimer { legacy: bool, which: u8 },
    Render,
}
#[derive(Debug, Clone, PartialEq, Eq, Hash, Serialize, Deserialize)]
pub enum Action {
    Send(Step),
    /// answer the n-th outstanding request (mapped onto the outstanding ones)
    Answer(u16),
}
#[derive(Debug, Clone, PartialEq, Eq, Hash, Serialize, Deserialize)]
pub enum Mutation {
    None,
    DropHeader(u8),
    AddHeader,
    ChangeValue(u8),
    ChangeStatus,
    ChangeBody,
    /// one value of a multi-valued header other than its first is changed / dropped / two are swapped / one is added
    ChangeLaterValue(u8),
    DropLaterValue(u8),
    SwapValues(u8),
    AddValue(u8),
    /// one header keeps its value but gets another name: as many names as before, the same values under
    /// every name both sides share
    RenameHeader(u8),
}
#[derive(Debug, Clone, PartialEq, Eq, Hash, Serialize, Deserialize)]
pub enum Case {
    History(Vec<Action>),
    ResponseEq {
        headers: Vec<(String, String)>,
        body: Vec<u8>,
        rotate: u8,
        mutation: Mutation,
        /// further headers carrying several values under one name (`set-cookie`, `link`, ...)
        #[serde(default)]
        multi: Vec<(String, Vec<String>)>,
    },
    /// a response the API hands to the app is serialized (it implements `Serialize`: an app may put
    /// it into its view model or persist it): the bytes must not depend on hash seeds
    ResponseSer { headers: Vec<(String, String)>, body: Vec<u8>, rotate: u8 },
    /// two values of a protocol type (requests, responses, results, errors, operations): the second
    /// is the first after `edits` small structural edits (elements of a sequence swapped, duplicated,
    /// dropped; a leaf changed); `==` must say "equal" exactly when they serialize to the same bytes
    ProtoEq { container: String, value: wire::V, edits: Vec<(u16, u8)> },
}

/// the `n`-th sequence / leaf of the value tree, edited in place; returns whether something changed
fn edit(v: &mut wire::V, target: &mut u16, kind: u8) -> bool {
    use wire::V;
    match v {
        V::Seq(xs) if !xs.is_empty() => {
            if *target == 0 {
                let n = xs.len();
                match kind % 4 {
                    0 if n >= 2 => xs.swap(0, n - 1),
                    1 => {
                        let x = xs[0].clone();
                        xs.push(x)
                    }
                    2 => {
                        xs.remove(n - 1);
                    }
                    _ if n >= 2 => xs.rotate_left(1),
                    _ => return false,
                }
                *target = u16::MAX;
                return true;
            }
            *target -= 1;
            xs.iter_mut().any(|x| edit(x, target, kind))
        }
        V::Str(s) => {
            if *target == 0 {
                s.push('x');
                *target = u16::MAX;
                return true;
            }
            *target -= 1;
            false
        }
        V::Bytes(b) => {
            if *target == 0 {
                b.push(0);
                *target = u16::MAX;
                return true;
            }
            *target -= 1;
            false
        }
        V::U(n) if *target == 0 => {
            *n ^= 1;
            *target = u16::MAX;
            true
        }
        V::U(_) => {
            *target -= 1;
            false
        }
        V::Some(x) => edit(x, target, kind),
        V::Tuple(xs) => xs.iter_mut().any(|x| edit(x, target, kind)),
        V::Struct(xs) => xs.iter_mut().any(|(_, x)| edit(x, target, kind)),
        V::Variant(_, p) => edit(p, target, kind),
        V::Map(xs) => xs.iter_mut().any(|(_, x)| edit(x, target, kind)),
        _ => false,
    }
}

#[derive(Serialize, Deserialize)]
pub enum Event {
    Do(Step),
    #[serde(skip)]
    Http(crux_http::Result<crux_http::Response<Vec<u8>>>),
    #[serde(skip)]
    Told(String),
}
#[derive(Effect)]
#[allow(dead_code)]
pub struct Capabilities {
    pub http: crux_http::Http<Event>,
    pub key_value: crux_kv::KeyValue<Event>,
    pub time: crux_time::Time<Event>,
    pub render: Render<Event>,
}
#[derive(Default)]
pub struct App;
#[derive(Default)]
pub struct Model {
    pub log: Vec<String>,
    legacy_timers: Vec<TimerId>,
    handles: Vec<Option<crux_time::command::TimerHandle>>,
}
#[derive(Default, Serialize, Deserialize, Clone, Debug, PartialEq)]
pub struct View {
    pub log: Vec<String>,
}

impl crux_core::App for App {
    type Event = Event;
    type Model = Model;
    type ViewModel = View;
    type Capabilities = Capabilities;
    type Effect = Effect;
    fn update(&self, ev: Event, m: &mut Model, caps: &Capabilities) -> Command<Effect, Event> {
        type H = crux_http::command::Http<Effect, Event>;
        type K = crux_kv::command::KeyValue<Effect, Event>;
        type T = crux_time::command::Time<Effect, Event>;
        match ev {
            Event::Do(step) => match step {
                Step::Http { command_api: true, post, url, headers, body, multi } => {
                    let mut b = if post { H::post(&url) } else { H::get(&url) };
                    for (n, v) in &headers {
                        b = b.header(n.as_str(), v.as_str());
                    }
                    for (n, vs) in &multi {
                        let vals: Vec<crux_http::http::headers::HeaderValue> = vs.iter().map(|v| v.parse().unwrap()).collect();
                        b = b.header(n.as_str(), &vals[..]);
                    }
                    if let Some(body) = body {
                        b = b.body_bytes(body);
                    }
                    b.build().then_send(Event::Http)
                }
                Step::Http { command_api: false, post, url, headers, body, multi } => {
                    let mut b = if post { caps.http.post(&url) } else { caps.http.get(&url) };
                    for (n, v) in &headers {
                        b = b.header(n.as_str(), v.as_str());
                    }
                    for (n, vs) in &multi {
                        let vals: Vec<crux_http::http::headers::HeaderValue> = vs.iter().map(|v| v.parse().unwrap()).collect();
                        b = b.header(n.as_str(), &vals[..]);
                    }
                    if let Some(body) = body {
                        b = b.body_bytes(body);
                    }
                    b.send(Event::Http);
                    Command::done()
                }
                Step::KvSet { key, value } => K::set(key, value).then_send(|r| Event::Told(format!("set {r:?}"))),
                Step::KvGet { key } => K::get(key).then_send(|r| Event::Told(format!("get {r:?}"))),
                Step::KvList { prefix, cursor } => K::list_keys(prefix, cursor).then_send(|r| Event::Told(format!("list {r:?}"))),
                Step::TimeNow => T::now().then_send(|_| Event::Told("now".into())),
                Step::TimerAfter { millis, legacy: false } => {
                    let (b, handle) = T::notify_after(Duration::from_millis(millis as u64));
                    m.handles.push(Some(handle));
                    b.then_send(|o| Event::Told(format!("timer {}", matches!(o, crux_time::command::TimerOutcome::Completed(_)))))
                }
                Step::TimerAfter { millis, legacy: true } => {
                    let id = caps.time.notify_after(Duration::from_millis(millis as u64), |r| Event::Told(format!("legacy timer {}", matches!(r, TimeResponse::DurationElapsed { .. }))));
                    m.legacy_timers.push(id);
                    Command::done()
                }
                Step::ClearTimer { legacy: true, which } => {
                    if !m.legacy_timers.is_empty() {
                        caps.time.clear(m.legacy_timers[which as usize % m.legacy_timers.len()]);
                    }
                    Command::done()
                }
                Step::ClearTimer { legacy: false, which } => {
                    if !m.handles.is_empty() {
                        let k = which as usize % m.handles.len();
                        if let Some(h) = m.handles[k].take() {
                            h.clear();
                        }
                    }
                    Command::done()
                }
                Step::Render => crux_core::render::render(),
            },
            Event::Http(r) => {
                m.log.push(match r {
                    Ok(mut r) => {
                        let mut names: Vec<String> = r.header_names().map(|n| n.to_string()).collect();
                        names.sort();
                        format!("http {} {:?} {:?}", u16::from(r.status()), names, r.take_body().map(|b| b.len()))
                    }
                    Err(e) => format!("http error {e}"),
                });
                crux_core::render::render()
            }
            Event::Told(s) => {
                m.log.push(s);
                Command::done()
            }
        }
    }
    fn view(&self, m: &Model) -> View {
        View { log: m.log.clone() }
    }
}

fn opts() -> impl bincode::Options + Copy {
    bincode::DefaultOptions::new().with_fixint_encoding().allow_trailing_bytes()
}

/// rename timer ids by first occurrence (the statement leaves their numbering open)
fn normalise(reqs: &mut [BridgeRequest<EffectFfi>], names: &mut BTreeMap<usize, usize>) {
    for r in reqs {
        if let EffectFfi::Time(t) = &mut r.effect {
            let id = match t {
                TimeRequest::NotifyAt { id, .. } | TimeRequest::NotifyAfter { id, .. } | TimeRequest::Clear { id } => id,
                TimeRequest::Now => continue,
            };
            let n = names.len();
            id.0 = *names.entry(id.0).or_insert(n);
        }
    }
}

fn answer_for(effect: &EffectFfi) -> Option<Vec<u8>> {
    Some(match effect {
        EffectFfi::Http(r) => opts().serialize(&HttpResult::Ok(HttpResponse::status(if r.url.len() % 3 == 0 { 404 } else { 200 }).header("content-type", "text/plain").header("x-one", "1").header("x-two", "2").header("etag", "abc").body(r.url.as_bytes().to_vec()).build())).unwrap(),
        EffectFfi::KeyValue(op) => opts()
            .serialize(&KeyValueResult::Ok {
                response: match op {
                    KeyValueOperation::Get { .. } => KeyValueResponse::Get { value: Value::Bytes(vec![1, 2, 3]) },
                    KeyValueOperation::Set { .. } => KeyValueResponse::Set { previous: Value::None },
                    KeyValueOperation::Delete { .. } => KeyValueResponse::Delete { previous: Value::None },
                    KeyValueOperation::Exists { .. } => KeyValueResponse::Exists { is_present: true },
                    KeyValueOperation::ListKeys { .. } => KeyValueResponse::ListKeys { keys: vec!["a".into(), "b".into()], next_cursor: 0 },
                },
            })
            .unwrap(),
        EffectFfi::Time(t) => opts()
            .serialize(&match t {
                TimeRequest::Now => TimeResponse::Now { instant: crux_time::Instant::new(1_700_000_000, 5) },
                TimeRequest::NotifyAt { id, .. } => TimeResponse::InstantArrived { id: *id },
                TimeRequest::NotifyAfter { id, .. } => TimeResponse::DurationElapsed { id: *id },
                TimeRequest::Clear { id } => TimeResponse::Cleared { id: *id },
            })
            .unwrap(),
        EffectFfi::Render(_) => return None,
    })
}

/// One replay: per call, the normalised serialized effect batch and the serialized view.
pub fn replay(history: &[Action]) -> Result<Vec<(Vec<u8>, Vec<u8>)>, String> {
    catch(|| -> Result<_, String> {
        let bridge: Bridge<App> = Bridge::new(Core::new());
        let mut rows = vec![];
        let mut names = BTreeMap::new();
        // outstanding requests with the ids the bridge really handed out
        let mut outstanding: Vec<BridgeRequest<EffectFfi>> = vec![];
        for a in history {
            let bytes = match a {
                Action::Send(step) => bridge.process_event(&opts().serialize(&Event::Do(step.clone())).unwrap()).map_err(|e| e.to_string())?,
                Action::Answer(c) => {
                    if outstanding.is_empty() {
                        continue;
                    }
                    let req = outstanding.remove(*c as usize * outstanding.len() >> 16);
                    let Some(resp) = answer_for(&req.effect) else { continue };
                    match bridge.handle_response(req.id.0, &resp) {
                        Ok(bytes) => bytes,
                        Err(e) => {
                            // e.g. the legacy time API sends `Clear` as a notification, which takes no answer:
                            // the refusal is part of the observable behaviour and has to be the same in every replay
                            rows.push((format!("refused: {e}").into_bytes(), bridge.view().map_err(|e| e.to_string())?));
                            continue;
                        }
                    }
                }
            };
            let raw: Vec<BridgeRequest<EffectFfi>> = opts().deserialize(&bytes).map_err(|e| format!("returned requests do not decode: {e}"))?;
            let mut shown: Vec<BridgeRequest<EffectFfi>> = opts().deserialize(&bytes).unwrap();
            normalise(&mut shown, &mut names);
            outstanding.extend(raw.into_iter().filter(|r| !matches!(r.effect, EffectFfi::Render(_))));
            rows.push((opts().serialize(&shown).unwrap(), bridge.view().map_err(|e| e.to_string())?));
        }
        Ok(rows)
    })
    .map_err(|p| format!("panic: {p}"))?
}

fn on_fresh_thread(history: &[Action]) -> Result<Vec<(Vec<u8>, Vec<u8>)>, String> {
    let h = history.to_vec();
    std::thread::spawn(move || replay(&h)).join().map_err(|_| "replay thread died".to_string())?
}

fn describe_difference(a: &[(Vec<u8>, Vec<u8>)], b: &[(Vec<u8>, Vec<u8>)]) -> (String, String) {
    for (i, (x, y)) in a.iter().zip(b.iter()).enumerate() {
        if x.0 != y.0 {
            let dx: Vec<BridgeRequest<EffectFfi>> = opts().deserialize(&x.0).unwrap_or_default();
            let dy: Vec<BridgeRequest<EffectFfi>> = opts().deserialize(&y.0).unwrap_or_default();
            let sort_headers = |v: &[BridgeRequest<EffectFfi>]| -> Vec<u8> {
                let mut v: Vec<BridgeRequest<EffectFfi>> = opts().deserialize(&opts().serialize(v).unwrap()).unwrap();
                for r in &mut v {
                    if let EffectFfi::Http(h) = &mut r.effect {
                        h.headers.sort_by(|a, b| (&a.name, &a.value).cmp(&(&b.name, &b.value)));
                    }
                }
                opts().serialize(&v).unwrap()
            };
            let sig = if sort_headers(&dx) == sort_headers(&dy) { "http-header-order-depends-on-hash-seed" } else { "effects-differ" };
            let show = |v: &[BridgeRequest<EffectFfi>]| {
                v.iter()
                    .map(|r| match &r.effect {
                        EffectFfi::Http(h) => format!("#{} http {} {} {:?}", r.id.0, h.method, h.url, h.headers.iter().map(|x| format!("{}: {}", x.name, x.value)).collect::<Vec<_>>()),
                        EffectFfi::KeyValue(k) => format!("#{} kv {k:?}", r.id.0),
                        EffectFfi::Time(t) => format!("#{} time {t:?}", r.id.0),
                        EffectFfi::Render(_) => format!("#{} render", r.id.0),
                    })
                    .collect::<Vec<_>>()
            };
            return (sig.into(), format!("call {i}: one replay returned {:?}, another {:?}", show(&dx), show(&dy)));
        }
        if x.1 != y.1 {
            return ("view-differs".into(), format!("call {i}: the serialized views of two replays differ"));
        }
    }
    ("length-differs".into(), format!("two replays made {} and {} calls", a.len(), b.len()))
}

fn build_response(status: u16, headers: &[(String, String)], body: &[u8]) -> crux_http::Response<Vec<u8>> {
    build_response_multi(status, headers, &[], body)
}

fn build_response_multi(status: u16, headers: &[(String, String)], multi: &[(String, Vec<String>)], body: &[u8]) -> crux_http::Response<Vec<u8>> {
    let mut b = crux_http::testing::ResponseBuilder::with_status(crux_http::http::StatusCode::try_from(status).unwrap());
    for (n, v) in headers {
        b = b.header(n.as_str(), v.as_str());
    }
    let mut r = b.body(body.to_vec()).build();
    for (n, vs) in multi {
        for v in vs {
            r.append_header(n.as_str(), v.as_str());
        }
    }
    r
}

pub fn judge(c: &Case) -> Result<(), (String, String)> {
    match c {
        Case::History(h) => {
            let a = on_fresh_thread(h).map_err(|e| ("error".to_string(), e))?;
            for _ in 0..2 {
                let b = on_fresh_thread(h).map_err(|e| ("error".to_string(), e))?;
                if a != b {
                    return Err(describe_difference(&a, &b));
                }
            }
            Ok(())
        }
        Case::ProtoEq { container, value, edits } => {
            let mut other = value.clone();
            for (t, k) in edits {
                let mut t = *t % 12;
                edit(&mut other, &mut t, *k);
            }
            match crate::c10::eq_vs_bytes(container, value, &other).map_err(|e| ("error".to_string(), e))? {
                None => Ok(()),
                Some((ab, ba, same)) if ab == same && ba == same => Ok(()),
                Some((ab, ba, same)) => Err(("protocol-eq-disagrees-with-contents".into(), format!("{container}: a = {value:?}, b = {other:?}: a == b is {ab}, b == a is {ba}, their serialized bytes are {}", if same { "identical" } else { "different" }))),
            }
        }
        Case::ResponseSer { headers, body, rotate } => {
            let mut seen = std::collections::BTreeSet::new();
            let headers: Vec<(String, String)> = headers.iter().filter(|(n, _)| seen.insert(n.to_ascii_lowercase())).cloned().collect();
            let mut other = headers.clone();
            if !other.is_empty() {
                let k = *rotate as usize % other.len();
                other.rotate_left(k);
            }
            let ser = |hs: &[(String, String)]| -> Result<(Vec<u8>, String), (String, String)> {
                let r = build_response(200, hs, body);
                Ok((opts().serialize(&r).map_err(|e| ("error".to_string(), e.to_string()))?, serde_json::to_string(&r).map_err(|e| ("error".to_string(), e.to_string()))?))
            };
            let first = ser(&headers)?;
            for round in 0..16 {
                // fresh maps, and every other round a fresh thread (a different hash seed)
                let hs = if round % 2 == 0 { headers.clone() } else { other.clone() };
                let next = if round % 4 < 2 { ser(&hs)? } else { std::thread::scope(|s| s.spawn(|| ser(&hs)).join().unwrap())? };
                if next != first {
                    return Err(("response-serialization-depends-on-hash-seed".into(), format!("one response (headers {headers:?}) serializes as {} and as {}", first.1, next.1)));
                }
            }
            Ok(())
        }
        Case::ResponseEq { headers, body, rotate, mutation, multi } => {
            // distinct names only: the builder replaces
            let mut seen = std::collections::BTreeSet::new();
            let headers: Vec<(String, String)> = headers.iter().filter(|(n, _)| seen.insert(n.to_ascii_lowercase())).cloned().collect();
            let multi: Vec<(String, Vec<String>)> = multi.iter().filter(|(n, _)| seen.insert(n.to_ascii_lowercase())).cloned().collect();
            let mut multi2 = multi.clone();
            multi2.reverse(); // the other side meets the names in another order; the values of one name keep theirs
            let mut other = headers.clone();
            if !other.is_empty() {
                let k = *rotate as usize % other.len();
                other.rotate_left(k);
            }
            let (mut status, mut body2) = (200u16, body.clone());
            let mut same = true;
            match mutation {
                Mutation::None => {}
                Mutation::DropHeader(i) if !other.is_empty() => {
                    other.remove(*i as usize % other.len());
                    same = false;
                }
                Mutation::ChangeValue(i) if !other.is_empty() => {
                    let k = *i as usize % other.len();
                    other[k].1.push('x');
                    same = false;
                }
                Mutation::RenameHeader(i) if !other.is_empty() => {
                    let k = *i as usize % other.len();
                    other[k].0 = "x-renamed-header".into();
                    same = false;
                }
                Mutation::ChangeLaterValue(i) | Mutation::DropLaterValue(i) | Mutation::SwapValues(i) | Mutation::AddValue(i) if multi2.iter().any(|(_, v)| v.len() >= 2) => {
                    let cands: Vec<usize> = (0..multi2.len()).filter(|k| multi2[*k].1.len() >= 2).collect();
                    let vs = &mut multi2[cands[*i as usize % cands.len()]].1;
                    let k = 1 + (*i as usize / 7) % (vs.len() - 1);
                    match mutation {
                        Mutation::ChangeLaterValue(_) => vs[k].push('x'),
                        Mutation::DropLaterValue(_) => {
                            vs.remove(k);
                        }
                        Mutation::SwapValues(_) => {
                            // (only a change if the two values differ)
                            if vs[k] == vs[k - 1] {
                                vs[k].push('y');
                            }
                            vs.swap(k, k - 1);
                            if k - 1 == 0 && vs.len() > 2 {
                                // keep the first value in place when possible: the later values are the point
                                vs.swap(0, 1);
                                vs.swap(1, 2);
                            }
                        }
                        _ => vs.push("added".into()),
                    }
                    same = multi2 == { let mut m = multi.clone(); m.reverse(); m };
                }
                Mutation::DropHeader(_) | Mutation::ChangeValue(_) | Mutation::RenameHeader(_) | Mutation::AddHeader | Mutation::ChangeLaterValue(_) | Mutation::DropLaterValue(_) | Mutation::SwapValues(_) | Mutation::AddValue(_) => {
                    other.push(("x-extra-header".into(), "1".into()));
                    same = false;
                }
                Mutation::ChangeStatus => {
                    status = 201;
                    same = false;
                }
                Mutation::ChangeBody => {
                    body2.push(0);
                    same = false;
                }
            }
            // the suspected failure mode depends on hash order: rebuild both sides several times
            for _ in 0..16 {
                let (l, r) = (build_response_multi(200, &headers, &multi, body), build_response_multi(status, &other, &multi2, &body2));
                for (x, y) in [(&l, &r), (&r, &l)] {
                    if (x == y) != same {
                        let sig = match (same, mutation) {
                            (true, _) => "response-eq-depends-on-header-iteration-order",
                            (false, Mutation::DropHeader(_) | Mutation::AddHeader | Mutation::ChangeValue(_)) => "response-eq-ignores-header-difference",
                            (false, Mutation::ChangeLaterValue(_) | Mutation::DropLaterValue(_) | Mutation::SwapValues(_) | Mutation::AddValue(_)) => "response-eq-ignores-later-values-of-a-header",
                            _ => "response-eq-wrong",
                        };
                        return Err((sig.into(), format!("two responses with headers {:?} + {multi:?} and {:?} + {multi2:?} (status {} / {}, bodies {}equal) compare {}", headers, other, 200, status, if body == &body2 { "" } else { "not " }, if same { "unequal although their contents are equal" } else { "equal although their contents differ" })));
                    }
                }
            }
            Ok(())
        }
    }
}

pub fn strategy() -> BoxedStrategy<Case> {
    let name = prop_oneof![3 => "[a-z]{1,6}(-[a-z]{1,4})?", 1 => Just("accept".to_string()), 1 => Just("authorization".to_string()), 1 => Just("x-request-id".to_string()), 1 => Just("Content-Type".to_string())];
    let header = (name, "[!-~]{1,10}");
    let headers = prop_oneof![2 => prop::collection::vec(header.clone(), 0..2), 8 => prop::collection::vec(header.clone(), 2..9), 1 => prop::collection::vec(header.clone(), 30..70)];
    let url = prop_oneof![Just("http://example.com/a".to_string()), Just("https://example.com/b?x=1".to_string()), "http://h\\.example/[a-z]{1,6}"];
    let key = "[a-zé]{0,6}";
    let step = prop_oneof![
        6 => (any::<bool>(), any::<bool>(), url, headers.clone(), proptest::option::of(prop::collection::vec(any::<u8>(), 0..8)), prop::collection::vec(("x-m[a-c]", prop::collection::vec("[!-~]{1,6}", 2..6)), 0..3))
            .prop_map(|(command_api, post, url, headers, body, multi)| Step::Http { command_api, post, url, headers, body, multi }),
        1 => (key, prop::collection::vec(any::<u8>(), 0..6)).prop_map(|(key, value)| Step::KvSet { key, value }),
        1 => key.prop_map(|key| Step::KvGet { key }),
        1 => (key, any::<u64>()).prop_map(|(prefix, cursor)| Step::KvList { prefix, cursor }),
        1 => Just(Step::TimeNow),
        3 => (0u32..5000, any::<bool>()).prop_map(|(millis, legacy)| Step::TimerAfter { millis, legacy }),
        2 => (any::<bool>(), any::<u8>()).prop_map(|(legacy, which)| Step::ClearTimer { legacy, which }),
        1 => Just(Step::Render),
    ];
    let action = prop_oneof![3 => step.prop_map(Action::Send), 2 => any::<u16>().prop_map(Action::Answer)];
    let mutation = prop_oneof![
        4 => Just(Mutation::None),
        1 => any::<u8>().prop_map(Mutation::DropHeader),
        1 => Just(Mutation::AddHeader),
        1 => any::<u8>().prop_map(Mutation::ChangeValue),
        1 => Just(Mutation::ChangeStatus),
        1 => Just(Mutation::ChangeBody),
        1 => any::<u8>().prop_map(Mutation::ChangeLaterValue),
        1 => any::<u8>().prop_map(Mutation::DropLaterValue),
        1 => any::<u8>().prop_map(Mutation::SwapValues),
        1 => any::<u8>().prop_map(Mutation::AddValue),
        2 => any::<u8>().prop_map(Mutation::RenameHeader),
    ];
    let multi_headers = prop::collection::vec((prop_oneof![Just("set-cookie".to_string()), Just("link".to_string()), "x-m[a-c]".boxed()], prop::collection::vec("[!-~]{1,6}", 2..5)), 0..3);
    prop_oneof![
        2 => prop::collection::vec(action, 1..14).prop_map(Case::History),
        2 => (headers.clone(), prop::collection::vec(any::<u8>(), 0..6), any::<u8>(), mutation, multi_headers).prop_map(|(headers, body, rotate, mutation, multi)| Case::ResponseEq { headers, body, rotate, mutation, multi }),
        1 => (headers, prop::collection::vec(any::<u8>(), 0..6), any::<u8>()).prop_map(|(headers, body, rotate)| Case::ResponseSer { headers, body, rotate }),
        2 => proptest::sample::select(crate::c10::EQ_CONTAINERS.to_vec()).prop_flat_map(|c| (crate::c10::value_strategy(c), prop::collection::vec((any::<u16>(), any::<u8>()), 0..3)).prop_map(move |(value, edits)| Case::ProtoEq { container: c.to_string(), value, edits })),
    ]
    .boxed()
}

fn reproducer(sig: &str) -> Option<Case> {
    let hs = |n: usize| (0..n).map(|i| (format!("x-h{i}"), format!("{i}"))).collect::<Vec<_>>();
    match sig {
        "http-header-order-depends-on-hash-seed" => Some(Case::History(vec![Action::Send(Step::Http { command_api: true, post: false, url: "http://example.com/a".into(), headers: hs(8), body: None, multi: vec![] })])),
        "response-eq-depends-on-header-iteration-order" => Some(Case::ResponseEq { headers: hs(8), body: vec![], rotate: 3, mutation: Mutation::None, multi: vec![] }),
        "response-eq-ignores-header-difference" => Some(Case::ResponseEq { headers: vec![], body: vec![], rotate: 0, mutation: Mutation::AddHeader, multi: vec![] }),
        "response-serialization-depends-on-hash-seed" => Some(Case::ResponseSer { headers: hs(8), body: vec![], rotate: 3 }),
        _ => None,
    }
}

/// `chk-data C11 --emit-digest <file>`: print one digest line per history in the file (child of the cross-process clause)
pub fn emit_digest(path: &str) {
    let cases: Vec<Vec<Action>> = serde_json::from_slice(&std::fs::read(path).expect("digest input")).expect("digest input is JSON");
    for h in cases {
        match replay(&h) {
            Ok(rows) => {
                let mut all = vec![];
                for (e, v) in rows {
                    all.extend((e.len() as u64).to_le_bytes());
                    all.extend(e);
                    all.extend((v.len() as u64).to_le_bytes());
                    all.extend(v);
                }
                println!("{:016x}", vkit::fnv(&all));
            }
            Err(e) => println!("error {}", e.replace('\n', " ")),
        }
    }
}

fn cross_process(histories: &[Vec<Action>]) -> Result<usize, (usize, String)> {
    let dir = vkit::verif_root().join("out").join("tmp");
    std::fs::create_dir_all(&dir).ok();
    let file = dir.join(format!("c11-{}.json", std::process::id()));
    std::fs::write(&file, serde_json::to_vec(histories).unwrap()).map_err(|e| (0, e.to_string()))?;
    let exe = std::env::current_exe().map_err(|e| (0, e.to_string()))?;
    let run = || -> Result<Vec<String>, (usize, String)> {
        let out = std::process::Command::new(&exe).args(["C11", "--emit-digest"]).arg(&file).output().map_err(|e| (0, e.to_string()))?;
        Ok(String::from_utf8_lossy(&out.stdout).lines().map(str::to_string).collect())
    };
    let first = run()?;
    let mut res = Ok(first.len());
    for _ in 0..3 {
        let next = run()?;
        if let Some(i) = (0..first.len().max(next.len())).find(|&i| first.get(i) != next.get(i)) {
            res = Err((i, format!("history {i} gives digest {:?} in one process and {:?} in another", first.get(i), next.get(i))));
            break;
        }
    }
    let _ = std::fs::remove_file(&file);
    res
}

pub fn main(mode: Mode) {
    let prop = "C11";
    let known = vkit::known_findings(prop);
    let stats = Stats::new();
    let pool: std::sync::Mutex<Vec<Vec<Action>>> = std::sync::Mutex::new(vec![]);
    let check = |c: &Case| -> Result<(), String> {
        let (nt, labels): (bool, Vec<&str>) = match c {
            Case::History(h) => {
                let many = h.iter().any(|a| matches!(a, Action::Send(Step::Http { headers, .. }) if headers.iter().map(|(n, _)| n.to_ascii_lowercase()).collect::<std::collections::BTreeSet<_>>().len() >= 3));
                let multi = h.iter().any(|a| matches!(a, Action::Send(Step::Http { multi, .. }) if multi.iter().any(|(_, v)| v.len() >= 2)));
                let cleared = h.iter().any(|a| matches!(a, Action::Send(Step::ClearTimer { .. }))) && h.iter().any(|a| matches!(a, Action::Send(Step::TimerAfter { .. })));
                let mut l = vec!["kind:history", if many { "history:http>=3-header-names" } else { "history:other" }];
                if multi {
                    l.push("history:multi-valued-header");
                }
                if cleared {
                    l.push("history:timer-started-and-cleared");
                }
                (many || multi || cleared, l)
            }
            Case::ProtoEq { edits, .. } => (!edits.is_empty(), vec!["kind:protocol-equality", if edits.is_empty() { "pair:identical" } else { "pair:edited" }]),
            Case::ResponseSer { headers, .. } => (headers.len() >= 3, vec!["kind:serialization", if headers.len() >= 3 { "ser:>=3-headers" } else { "ser:<3-headers" }]),
            Case::ResponseEq { headers, mutation, .. } => {
                let in_headers = matches!(mutation, Mutation::DropHeader(_) | Mutation::AddHeader | Mutation::ChangeValue(_));
                (in_headers || (headers.len() >= 3 && *mutation == Mutation::None), vec!["kind:equality", if *mutation == Mutation::None { "pair:equal-by-construction" } else if in_headers { "pair:differs-in-headers" } else { "pair:differs-elsewhere" }])
            }
        };
        match judge(c) {
            Ok(()) => {
                stats.case(c, nt, &labels);
                if let Case::History(h) = c {
                    let mut p = pool.lock().unwrap();
                    if nt && p.len() < 400 {
                        p.push(h.clone());
                    }
                }
                if nt && stats.wants_sample() {
                    stats.sample(|| serde_json::to_value(c).unwrap());
                }
                Ok(())
            }
            Err((sig, why)) => {
                if vkit::is_known(&known, &sig) && reproducer(&sig).is_some() {
                    stats.case(c, nt, &labels);
                    stats.excluded_known(&sig);
                    Ok(())
                } else {
                    Err(format!("[{sig}] {why}"))
                }
            }
        }
    };
    match mode {
        Mode::Replay(path) => {
            let res = vkit::read_replay(&path).and_then(|v| serde_json::from_value::<Case>(v).map_err(|e| e.to_string())).and_then(|c| check(&c));
            vkit::finish_replay(prop, &path, res)
        }
        Mode::Run(tier) => {
            let started = std::time::Instant::now();
            for k in &known {
                if let Some(c) = reproducer(&k.sig) {
                    if matches!(judge(&c), Err((s, _)) if s == k.sig) {
                        vkit::print_known_finding(k);
                    }
                }
            }
            let mut replayed = 0;
            for f in vkit::replay_files(prop) {
                replayed += 1;
                if let Err(why) = vkit::read_replay(&f).and_then(|v| serde_json::from_value::<Case>(v).map_err(|e| e.to_string())).and_then(|c| check(&c)) {
                    println!("why: {why}");
                    println!("VIOLATION property={prop} replay={}", f.display());
                    std::process::exit(1);
                }
            }
            let outcome = vkit::run_prop(prop, vkit::workers_for(tier), tier.pick(1_500, 40_000), strategy, check);
            // cross-process clause on the non-trivial histories collected above
            let outcome = match outcome {
                Outcome::Held => {
                    let histories = pool.lock().unwrap().clone();
                    match cross_process(&histories) {
                        Ok(n) => {
                            stats.set_extra("cross_process", serde_json::json!({"histories": n, "processes": 4}));
                            Outcome::Held
                        }
                        Err((i, why)) => {
                            let sig = "effects-differ-across-processes";
                            if vkit::is_known(&known, "http-header-order-depends-on-hash-seed") {
                                stats.excluded_known("http-header-order-depends-on-hash-seed");
                                Outcome::Held
                            } else {
                                Outcome::Violated(vkit::Violation { why: format!("[{sig}] {why}"), case: histories.get(i).map(|h| serde_json::to_value(Case::History(h.clone())).unwrap()).unwrap_or(serde_json::Value::Null) })
                            }
                        }
                    }
                }
                o => o,
            };
            let outcome = match outcome {
                Outcome::Held if stats.distinct_nontrivial() < 2 => Outcome::Inconclusive("generator produced no non-trivial case".into()),
                o => o,
            };
            vkit::finish(
                Report {
                    prop,
                    tier,
                    rule: "histories of 1-13 actions (HTTP requests with 0-8 headers and 0-2 multi-valued headers of 2-5 values through the command and the capability API, key-value set/get/list, time now / timers started and cleared - before or after they completed - through both time APIs, renders, answers to outstanding requests in generated order) replayed 3x on fresh threads through the bincode bridge and, for up to 400 of them, in 4 fresh processes; plus pairs of responses built independently from one description (headers inserted in rotated order; optionally one header dropped / added / changed, status or body changed), each pair rebuilt and compared 16x in both directions; plus responses serialized (bincode and JSON) 17x from fresh maps, half of them on fresh threads, which must give identical bytes; plus pairs of protocol values (HTTP request / response / result / error / header, key-value operation / response / result / error / value, time request / response / instant / duration, platform response, render operation) generated from the schema, the second being the first after 0-2 structural edits (sequence elements swapped, rotated, duplicated, dropped; a string, byte buffer or number changed), for which == in both directions must agree with equality of their serialized bytes; non-trivial = a history with an HTTP request carrying >= 3 distinct header names or a multi-valued header, or with a timer that is started and a clear, or an equality pair that is equal by construction with >= 3 headers or differs only in headers; distinct = distinct case",
                    assumptions: vec![
                        "timer ids are renamed by first occurrence before comparing (the statement leaves their numbering open)".into(),
                        "fresh threads and fresh processes have different hash seeds (std RandomState)".into(),
                        "a replay file of the cross-process clause is re-checked in-process on replay".into(),
                    ],
                    started,
                    replayed,
                },
                &stats,
                outcome,
            )
        }
    }
}
