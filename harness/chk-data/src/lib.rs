//! Data properties: C10, C11, C14-C19 (see /verif/DESIGN.md §7). A library so that the
//! coverage-guided drivers in harness/fuzz can call the same oracles as the campaigns.
pub mod c10;
pub mod c10_java;
pub mod c11;
pub mod c14;
pub mod c15;
pub mod c16;
pub mod c17;
pub mod c18;
pub mod c19;
