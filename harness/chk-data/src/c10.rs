//! C10 — generated foreign types describe the actual wire format.
//!
//! The registry is the one `TypeGen::register_app` builds for a rich app (all shipped capabilities
//! plus an event / view-model zoo). Clauses (DESIGN §7 C10):
//!  (a) what Rust writes decodes under the schema with nothing left over and re-encodes identically;
//!  (b) every schema-valid encoding is accepted by the core as the value it denotes;
//!  (c) for types Rust can also write, Rust writes exactly the schema encoding;
//!  (d) the registry is closed and complete.

use bincode::Options;
use crux_core::macros::{Effect, Export};
use crux_core::render::Render;
use crux_core::typegen::{State, TypeGen};
use crux_core::Command;
use proptest::prelude::*;
use serde::{de::DeserializeOwned, Deserialize, Serialize};
use serde_reflection::Registry;
use std::collections::BTreeMap;
use std::rc::Rc;
use vkit::{Mode, Outcome, Report, Stats};
use wire::{dec_c, enc_c, to_value, Rd, V};

// ------------------------------------------------------------------ the app whose types are generated

#[derive(Serialize, Deserialize, Debug, Clone, PartialEq)]
pub enum Shape {
    Unit,
    New(u8),
    Pair(i16, String),
    Rec { a: Option<Option<u32>>, b: Vec<Vec<u8>>, c: (bool, char, i64) },
}

#[derive(Serialize, Deserialize, Debug, Clone, PartialEq)]
pub struct Wide {
    pub i8_: i8,
    pub i128_: i128,
    pub u128_: u128,
    pub f32_: f32,
    pub f64_: f64,
    pub unit: (),
    pub arr: [u16; 3],
    pub map: BTreeMap<String, u32>,
    #[serde(with = "serde_bytes_shim")]
    pub raw: Vec<u8>,
    pub plain: Vec<u8>,
    pub usize_: usize,
    pub hr: Hr,
}

/// a type whose serde form depends on `is_human_readable()` (like Uuid, IpAddr, time types): a
/// number in compact formats such as the bridge's bincode, a string in readable ones
#[derive(Debug, Clone, PartialEq, Default)]
pub struct Hr(pub u32);
impl Serialize for Hr {
    fn serialize<S: serde::Serializer>(&self, s: S) -> Result<S::Ok, S::Error> {
        if s.is_human_readable() {
            s.serialize_str(&format!("hr-{}", self.0))
        } else {
            s.serialize_u32(self.0)
        }
    }
}
impl<'de> Deserialize<'de> for Hr {
    fn deserialize<D: serde::Deserializer<'de>>(d: D) -> Result<Self, D::Error> {
        if d.is_human_readable() {
            let s = String::deserialize(d)?;
            s.strip_prefix("hr-").and_then(|n| n.parse().ok()).map(Hr).ok_or_else(|| serde::de::Error::custom("not an Hr"))
        } else {
            u32::deserialize(d).map(Hr)
        }
    }
}

/// `serde_bytes` is not a dependency of the harness; this is the same two-line adapter
mod serde_bytes_shim {
    use serde::{Deserialize, Deserializer, Serializer};
    pub fn serialize<S: Serializer>(v: &Vec<u8>, s: S) -> Result<S::Ok, S::Error> {
        s.serialize_bytes(v)
    }
    pub fn deserialize<'de, D: Deserializer<'de>>(d: D) -> Result<Vec<u8>, D::Error> {
        struct B;
        impl<'de> serde::de::Visitor<'de> for B {
            type Value = Vec<u8>;
            fn expecting(&self, f: &mut std::fmt::Formatter) -> std::fmt::Result {
                f.write_str("bytes")
            }
            fn visit_bytes<E>(self, v: &[u8]) -> Result<Vec<u8>, E> {
                Ok(v.to_vec())
            }
            fn visit_byte_buf<E>(self, v: Vec<u8>) -> Result<Vec<u8>, E> {
                Ok(v)
            }
            fn visit_seq<A: serde::de::SeqAccess<'de>>(self, mut a: A) -> Result<Vec<u8>, A::Error> {
                let mut v = vec![];
                while let Some(b) = a.next_element()? {
                    v.push(b)
                }
                Ok(v)
            }
        }
        d.deserialize_byte_buf(B)
    }
}

#[derive(Serialize, Deserialize, Debug, Clone, PartialEq)]
pub enum Event {
    Go,
    Shape(Shape),
    Wide(Box<Wide>),
    Kv(crux_kv::KeyValueOperation),
    HttpReq(crux_http::protocol::HttpRequest),
    Time(crux_time::TimeRequest),
    Text { s: String, n: Option<u64> },
    Platform,
    /// what a capability answered, as the app saw it (Debug text)
    Got(String),
}

#[derive(Serialize, Deserialize, Debug, Clone, PartialEq, Default)]
pub struct ViewModel {
    pub title: String,
    pub shapes: Vec<Shape>,
    pub last: Option<Shape>,
    pub count: u64,
    pub last_output: String,
}

impl Default for Shape {
    fn default() -> Self {
        Shape::Unit
    }
}

#[derive(Effect, Export)]
#[allow(dead_code)]
pub struct Capabilities {
    pub http: crux_http::Http<Event>,
    pub key_value: crux_kv::KeyValue<Event>,
    pub time: crux_time::Time<Event>,
    pub platform: crux_platform::Platform<Event>,
    pub render: Render<Event>,
}

#[derive(Default)]
pub struct App;

impl crux_core::App for App {
    type Event = Event;
    type Model = ViewModel;
    type ViewModel = ViewModel;
    type Capabilities = Capabilities;
    type Effect = Effect;
    fn update(&self, ev: Event, m: &mut ViewModel, _caps: &Capabilities) -> Command<Effect, Event> {
        m.count += 1;
        match ev {
            Event::Shape(s) => {
                m.shapes.push(s.clone());
                m.last = Some(s);
                crux_core::render::render()
            }
            Event::Text { s, .. } => {
                m.title = s;
                crux_core::render::render()
            }
            Event::Kv(op) => Command::request_from_shell(op).then_send(|o| Event::Got(format!("{o:?}"))),
            Event::HttpReq(r) => Command::request_from_shell(r).then_send(|o| Event::Got(format!("{o:?}"))),
            Event::Time(t) => Command::request_from_shell(t).then_send(|o| Event::Got(format!("{o:?}"))),
            Event::Platform => Command::request_from_shell(crux_platform::PlatformRequest).then_send(|o| Event::Got(format!("{o:?}"))),
            Event::Got(s) => {
                m.last_output = s;
                crux_core::render::render()
            }
            _ => Command::done(),
        }
    }
    fn view(&self, m: &ViewModel) -> ViewModel {
        m.clone()
    }
}

pub fn registry() -> Result<Registry, String> {
    let mut g = TypeGen::new();
    // nested enums have to be registered by the user before the types that contain them (documented typegen usage)
    g.register_type::<Shape>().map_err(|e| e.to_string())?;
    g.register_type::<Wide>().map_err(|e| e.to_string())?;
    g.register_app::<App>().map_err(|e| format!("register_app failed: {e}"))?;
    let State::Registering(tracer, _) = std::mem::replace(&mut g.state, State::Generating(Default::default())) else { return Err("unexpected typegen state".into()) };
    tracer.registry().map_err(|e| format!("registry is not closed / complete: {e}"))
}

thread_local! { static REG: Rc<Registry> = Rc::new(registry().expect("registry was built once already")); }
fn thread_registry() -> Rc<Registry> {
    REG.with(|r| r.clone())
}

fn opts() -> impl bincode::Options + Copy {
    // the bridge's configuration (crux_core/src/bridge/mod.rs)
    bincode::DefaultOptions::new().with_fixint_encoding().allow_trailing_bytes()
}

// ------------------------------------------------------------------ per-type checks

#[derive(Debug, Clone, PartialEq, Eq, Hash, Serialize, Deserialize)]
pub struct Case {
    pub container: String,
    pub value: V,
    /// judged by the generated Java classes (c10_java) instead of the Rust-side clauses
    #[serde(default)]
    pub java: bool,
}

type Checker = fn(&Registry, &Case) -> Result<(), (&'static str, String)>;

fn check_typed<T: Serialize + DeserializeOwned>(reg: &Registry, c: &Case) -> Result<(), (&'static str, String)> {
    let name = &c.container;
    let mut bytes = vec![];
    enc_c(reg, name, &c.value, &mut bytes).map_err(|e| ("codec", format!("harness codec cannot encode a generated {name}: {e}")))?;
    // (b) shell -> core
    let t: T = opts().deserialize(&bytes).map_err(|e| ("core-rejects-valid", format!("the core rejects a schema-valid {name}: {e}; value {:?}", c.value)))?;
    let back = to_value(&t).map_err(|e| ("codec", e.to_string()))?;
    if back != c.value {
        return Err(("core-decodes-other-value", format!("{name}: the shell sent {:?}, the core understood {:?}", c.value, back)));
    }
    // (c) what Rust writes for that value
    let rust = opts().serialize(&t).map_err(|e| ("codec", e.to_string()))?;
    if rust != bytes {
        return Err(("rust-writes-other-bytes", format!("{name} {:?}: Rust writes {:?}, the schema encoding is {:?}", c.value, &rust[..rust.len().min(24)], &bytes[..bytes.len().min(24)])));
    }
    // (a) core -> shell
    let mut rd = Rd { b: &rust, i: 0 };
    let dv = dec_c(reg, name, &mut rd).map_err(|e| ("schema-cannot-decode", format!("{name}: the schema cannot decode what Rust writes: {e}")))?;
    if rd.i != rust.len() {
        return Err(("left-over-bytes", format!("{name}: {} bytes left over after decoding under the schema", rust.len() - rd.i)));
    }
    let mut re = vec![];
    enc_c(reg, name, &dv, &mut re).map_err(|e| ("codec", e))?;
    if re != rust {
        return Err(("reencode-differs", format!("{name}: re-encoding the decoded value gives different bytes")));
    }
    Ok(())
}

/// C11's equality clause for the protocol types: decode two schema-valid values into the Rust type
/// and report (a == b, b == a, same bytes). Ok(None) = one of them is not accepted by the core
/// (C10's business).
pub fn eq_vs_bytes(container: &str, v1: &V, v2: &V) -> Result<Option<(bool, bool, bool)>, String> {
    fn go<T: DeserializeOwned + PartialEq>(reg: &Registry, name: &str, v1: &V, v2: &V) -> Result<Option<(bool, bool, bool)>, String> {
        let (mut b1, mut b2) = (vec![], vec![]);
        enc_c(reg, name, v1, &mut b1)?;
        enc_c(reg, name, v2, &mut b2)?;
        let (Ok(a), Ok(b)) = (opts().deserialize::<T>(&b1), opts().deserialize::<T>(&b2)) else { return Ok(None) };
        Ok(Some((a == b, b == a, b1 == b2)))
    }
    let reg = thread_registry();
    match container {
        "HttpRequest" => go::<crux_http::protocol::HttpRequest>(&reg, container, v1, v2),
        "HttpResponse" => go::<crux_http::protocol::HttpResponse>(&reg, container, v1, v2),
        "HttpResult" => go::<crux_http::protocol::HttpResult>(&reg, container, v1, v2),
        "HttpError" => go::<crux_http::HttpError>(&reg, container, v1, v2),
        "HttpHeader" => go::<crux_http::protocol::HttpHeader>(&reg, container, v1, v2),
        "KeyValueOperation" => go::<crux_kv::KeyValueOperation>(&reg, container, v1, v2),
        "KeyValueResult" => go::<crux_kv::KeyValueResult>(&reg, container, v1, v2),
        "KeyValueResponse" => go::<crux_kv::KeyValueResponse>(&reg, container, v1, v2),
        "KeyValueError" => go::<crux_kv::error::KeyValueError>(&reg, container, v1, v2),
        "Value" => go::<crux_kv::value::Value>(&reg, container, v1, v2),
        "TimeRequest" => go::<crux_time::TimeRequest>(&reg, container, v1, v2),
        "TimeResponse" => go::<crux_time::TimeResponse>(&reg, container, v1, v2),
        "Instant" => go::<crux_time::Instant>(&reg, container, v1, v2),
        "Duration" => go::<crux_time::Duration>(&reg, container, v1, v2),
        "PlatformResponse" => go::<crux_platform::PlatformResponse>(&reg, container, v1, v2),
        "RenderOperation" => go::<crux_core::render::RenderOperation>(&reg, container, v1, v2),
        _ => Ok(None),
    }
}
pub const EQ_CONTAINERS: &[&str] = &["HttpRequest", "HttpResponse", "HttpResult", "HttpError", "HttpHeader", "KeyValueOperation", "KeyValueResult", "KeyValueResponse", "KeyValueError", "Value", "TimeRequest", "TimeResponse", "Instant", "Duration", "PlatformResponse", "RenderOperation"];
pub fn value_strategy(container: &'static str) -> BoxedStrategy<V> {
    wire::gen::container(&thread_registry(), container, 0)
}

fn checkers() -> BTreeMap<&'static str, Checker> {
    let mut m: BTreeMap<&'static str, Checker> = BTreeMap::new();
    macro_rules! t {
        ($n:expr, $t:ty) => {
            m.insert($n, check_typed::<$t> as Checker);
        };
    }
    t!("HttpRequest", crux_http::protocol::HttpRequest);
    t!("HttpResponse", crux_http::protocol::HttpResponse);
    t!("HttpResult", crux_http::protocol::HttpResult);
    t!("HttpError", crux_http::HttpError);
    t!("HttpHeader", crux_http::protocol::HttpHeader);
    t!("KeyValueOperation", crux_kv::KeyValueOperation);
    t!("KeyValueResult", crux_kv::KeyValueResult);
    t!("KeyValueResponse", crux_kv::KeyValueResponse);
    t!("KeyValueError", crux_kv::error::KeyValueError);
    t!("Value", crux_kv::value::Value);
    t!("TimeRequest", crux_time::TimeRequest);
    t!("TimeResponse", crux_time::TimeResponse);
    t!("TimerId", crux_time::TimerId);
    t!("Instant", crux_time::Instant);
    t!("Duration", crux_time::Duration);
    t!("PlatformRequest", crux_platform::PlatformRequest);
    t!("PlatformResponse", crux_platform::PlatformResponse);
    t!("RenderOperation", crux_core::render::RenderOperation);
    t!("Event", Event);
    t!("ViewModel", ViewModel);
    t!("Shape", Shape);
    t!("Wide", Wide);
    t!("Effect", EffectFfi);
    t!("Request", crux_core::bridge::Request<EffectFfi>);
    m
}

fn enum_nodes(v: &V) -> usize {
    match v {
        V::Variant(_, p) => 1 + enum_nodes(p),
        V::Some(x) => enum_nodes(x),
        V::Seq(xs) | V::Tuple(xs) => xs.iter().map(enum_nodes).sum(),
        V::Map(xs) => xs.iter().map(|(k, v)| enum_nodes(k) + enum_nodes(v)).sum(),
        V::Struct(xs) => xs.iter().map(|(_, v)| enum_nodes(v)).sum(),
        _ => 0,
    }
}
fn has_nonempty_seq(v: &V) -> bool {
    match v {
        V::Seq(xs) => !xs.is_empty(),
        V::Bytes(b) => !b.is_empty(),
        V::Variant(_, p) => has_nonempty_seq(p),
        V::Some(x) => has_nonempty_seq(x),
        V::Tuple(xs) => xs.iter().any(has_nonempty_seq),
        V::Map(xs) => !xs.is_empty(),
        V::Struct(xs) => xs.iter().any(|(_, v)| has_nonempty_seq(v)),
        _ => false,
    }
}
fn variant_labels(name: &str, v: &V, out: &mut Vec<String>) {
    match v {
        V::Variant(vn, p) => {
            out.push(format!("{name}::{vn}"));
            variant_labels(vn, p, out)
        }
        V::Some(x) => variant_labels(name, x, out),
        V::Seq(xs) | V::Tuple(xs) => xs.iter().for_each(|x| variant_labels(name, x, out)),
        V::Struct(xs) => xs.iter().for_each(|(f, v)| variant_labels(f, v, out)),
        _ => {}
    }
}

/// the bytes the bridge really emits (requests and view) decode under the schema
fn bridge_outputs(reg: &Registry, c: &Case) -> Result<(), (&'static str, String)> {
    if c.container != "Event" {
        return Ok(());
    }
    let mut bytes = vec![];
    enc_c(reg, "Event", &c.value, &mut bytes).map_err(|e| ("codec", e))?;
    let bridge = crux_core::bridge::Bridge::<App>::new(crux_core::Core::new());
    // half of the cases reach the bridge after an earlier interaction whose output was large (a 20 kB
    // view): what the bridge emits must decode under the schema at every point of a history, not only
    // on a fresh instance; and every case sends its event twice
    let after_large_output = vkit::fnv(&bytes) % 2 == 0;
    if after_large_output {
        let big = opts().serialize(&Event::Text { s: "x".repeat(20_000), n: None }).map_err(|e| ("codec", e.to_string()))?;
        bridge.process_event(&big).map_err(|e| ("bridge", e.to_string()))?;
        bridge.view().map_err(|e| ("view", e.to_string()))?;
    }
    for round in 0..2 {
        let at = if round == 0 && !after_large_output { String::new() } else { format!(" (interaction {} on one bridge{})", round + 1 + after_large_output as usize, if after_large_output { ", after a 20 kB view" } else { "" }) };
        let out = bridge.process_event(&bytes).map_err(|e| ("core-rejects-valid", format!("the bridge rejects a schema-valid event{at}: {e}")))?;
        let fmt = serde_reflection::Format::Seq(Box::new(serde_reflection::Format::TypeName("Request".into())));
        let mut rd = Rd { b: &out, i: 0 };
        let v = wire::dec_f(reg, &fmt, &mut rd).map_err(|e| ("schema-cannot-decode", format!("requests returned by the bridge do not decode under the schema{at}: {e}")))?;
        if rd.i != out.len() {
            return Err(("left-over-bytes", format!("{} bytes left over after decoding the bridge's requests{at}", out.len() - rd.i)));
        }
        let mut re = vec![];
        wire::enc_f(reg, &fmt, &v, &mut re).map_err(|e| ("codec", e))?;
        if re != out {
            return Err(("reencode-differs", format!("bridge requests re-encode differently{at}")));
        }
        let view = bridge.view().map_err(|e| ("view", e.to_string()))?;
        let mut rd = Rd { b: &view, i: 0 };
        dec_c(reg, "ViewModel", &mut rd).map_err(|e| ("schema-cannot-decode", format!("the view does not decode under the schema{at}: {e}")))?;
        if rd.i != view.len() {
            return Err(("left-over-bytes", format!("bytes left over after decoding the view{at}")));
        }
    }
    Ok(())
}

/// capability outputs go through the real bridge: a request of the matching kind is made outstanding,
/// the schema encoding is offered as its response, and the app must have received the value it denotes
fn bridge_accepts_output(reg: &Registry, c: &Case) -> Result<(), (&'static str, String)> {
    fn go<T: DeserializeOwned + std::fmt::Debug>(reg: &Registry, c: &Case, ask: Event) -> Result<(), (&'static str, String)> {
        let mut bytes = vec![];
        enc_c(reg, &c.container, &c.value, &mut bytes).map_err(|e| ("codec", e))?;
        let Ok(t) = opts().deserialize::<T>(&bytes) else { return Ok(()) }; // reported by the typed clause
        let bridge = crux_core::bridge::Bridge::<App>::new(crux_core::Core::new());
        let out = bridge.process_event(&opts().serialize(&ask).unwrap()).map_err(|e| ("bridge", e.to_string()))?;
        let reqs: Vec<crux_core::bridge::Request<EffectFfi>> = opts().deserialize(&out).map_err(|e| ("bridge", e.to_string()))?;
        let Some(id) = reqs.first().map(|r| r.id.0) else { return Err(("bridge", "no request came back".into())) };
        bridge.handle_response(id, &bytes).map_err(|e| ("core-rejects-valid", format!("the bridge rejects a schema-valid {} of {} bytes as the response to an outstanding request: {e}", c.container, bytes.len())))?;
        let view: ViewModel = opts().deserialize(&bridge.view().map_err(|e| ("view", e.to_string()))?).map_err(|e| ("view", e.to_string()))?;
        let want = format!("{t:?}");
        if view.last_output != want {
            let cut = |s: &str| s.chars().take(200).collect::<String>();
            return Err(("core-decodes-other-value", format!("{}: through the bridge the app received {}, the response denotes {}", c.container, cut(&view.last_output), cut(&want))));
        }
        Ok(())
    }
    match c.container.as_str() {
        "HttpResult" => go::<crux_http::protocol::HttpResult>(reg, c, Event::HttpReq(crux_http::protocol::HttpRequest::get("http://example.com/").build())),
        "KeyValueResult" => go::<crux_kv::KeyValueResult>(reg, c, Event::Kv(crux_kv::KeyValueOperation::Get { key: "k".into() })),
        "TimeResponse" => go::<crux_time::TimeResponse>(reg, c, Event::Time(crux_time::TimeRequest::Now)),
        "PlatformResponse" => go::<crux_platform::PlatformResponse>(reg, c, Event::Platform),
        _ => Ok(()),
    }
}

fn signature(container: &str, clause: &'static str) -> String {
    // the one shape known on the pinned tree: HttpError's leading #[serde(skip)] variants
    if (container == "HttpError" || container == "HttpResult") && matches!(clause, "rust-writes-other-bytes" | "schema-cannot-decode" | "left-over-bytes" | "reencode-differs") {
        "httperror-serde-skip".into()
    } else {
        format!("{container}:{clause}")
    }
}

pub fn main(mode: Mode) {
    let prop = "C10";
    let known = vkit::known_findings(prop);
    let reg = match registry() {
        Ok(r) => Rc::new(r),
        Err(e) => {
            println!("why: {e}");
            let path = vkit::write_replay(prop, &serde_json::Value::Null, &e);
            println!("VIOLATION property={prop} replay={}", path.display());
            std::process::exit(1)
        }
    };
    let table = checkers();
    let stats = Stats::new();
    let check = |c: &Case| -> Result<(), String> {
        if c.java {
            return crate::c10_java::run(&thread_registry(), 0, vkit::base_seed(), Some(c)).map(|_| ()).map_err(|f| format!("[{}] {}", f.sig, f.why));
        }
        let Some(f) = table.get(c.container.as_str()) else { return Err(format!("no Rust type registered in the harness for container {}", c.container)) };
        let reg = thread_registry();
        let res = f(&reg, c).and_then(|_| bridge_outputs(&reg, c)).and_then(|_| bridge_accepts_output(&reg, c));
        let mut labels = vec![];
        variant_labels(&c.container, &c.value, &mut labels);
        labels.push(format!("container:{}", c.container));
        let refs: Vec<&str> = labels.iter().map(|s| s.as_str()).collect();
        let nt = enum_nodes(&c.value) >= 2 && has_nonempty_seq(&c.value);
        match res {
            Ok(()) => {
                stats.case(c, nt, &refs);
                if nt && stats.wants_sample() {
                    stats.sample(|| serde_json::to_value(c).unwrap());
                }
                Ok(())
            }
            Err((clause, why)) => {
                let sig = signature(&c.container, clause);
                if vkit::is_known(&known, &sig) {
                    stats.case(c, nt, &refs);
                    stats.excluded_known(&sig);
                    Ok(())
                } else {
                    Err(format!("[{sig}] {why}"))
                }
            }
        }
    };
    match mode {
        Mode::Replay(path) => {
            let res = vkit::read_replay(&path).and_then(|v| serde_json::from_value::<Case>(v).map_err(|e| e.to_string())).and_then(|c| check(&c));
            vkit::finish_replay(prop, &path, res)
        }
        Mode::Run(tier) => {
            let started = std::time::Instant::now();
            // (d) closed and complete
            let dangling = wire::gen::dangling(&reg);
            let missing: Vec<&&str> = table.keys().filter(|k| !reg.contains_key(**k)).collect();
            if !dangling.is_empty() || !missing.is_empty() {
                let why = format!("registry not closed/complete: dangling type names {dangling:?}, expected containers missing {missing:?}");
                println!("why: {why}");
                let path = vkit::write_replay(prop, &serde_json::json!({ "dangling": dangling }), &why);
                println!("VIOLATION property={prop} replay={}", path.display());
                std::process::exit(1);
            }
            for k in &known {
                if k.sig == "httperror-serde-skip" {
                    let c = Case { container: "HttpError".into(), value: V::Variant("Timeout".into(), Box::new(V::Unit)), java: false };
                    if check_typed::<crux_http::HttpError>(&reg, &c).is_err() {
                        vkit::print_known_finding(k);
                    }
                }
            }
            let mut replayed = 0;
            for f in vkit::replay_files(prop) {
                replayed += 1;
                if let Err(why) = vkit::read_replay(&f).and_then(|v| serde_json::from_value::<Case>(v).map_err(|e| e.to_string())).and_then(|c| check(&c)) {
                    println!("why: {why}");
                    println!("VIOLATION property={prop} replay={}", f.display());
                    std::process::exit(1);
                }
            }
            // the generated code itself (Java: the one target language whose compiler is in the sandbox)
            match crate::c10_java::run(&reg, tier.pick(150, 4_000), vkit::base_seed(), None) {
                Ok(rep) => stats.set_extra("generated_java", serde_json::to_value(&rep).unwrap_or_default()),
                Err(f) => {
                    let why = format!("[{}] {}", f.sig, f.why);
                    println!("why: {why}");
                    let path = vkit::write_replay(prop, &f.case, &why);
                    println!("VIOLATION property={prop} replay={}", path.display());
                    std::process::exit(1);
                }
            }
            let names: Vec<String> = reg.keys().cloned().collect();
            stats.set_extra("containers", serde_json::json!(names));
            let strategy = move || {
                let reg2 = thread_registry();
                let arms: Vec<BoxedStrategy<Case>> = names
                    .iter()
                    .map(|n| {
                        let n2 = n.clone();
                        wire::gen::container(&reg2, n, 0).prop_map(move |v| Case { container: n2.clone(), value: v, java: false }).boxed()
                    })
                    .collect();
                proptest::strategy::Union::new(arms)
            };
            let outcome = vkit::run_prop(prop, vkit::workers_for(tier), tier.pick(20_000, 400_000), strategy, check);
            let outcome = match outcome {
                Outcome::Held if stats.distinct_nontrivial() < 2 => Outcome::Inconclusive("generator produced no non-trivial case".into()),
                o => o,
            };
            vkit::finish(
                Report {
                    prop,
                    tier,
                    rule: "for every container of the registry TypeGen builds for an app with all shipped capabilities (http, kv, time, platform, render) and an event/view-model zoo, schema-valid values are generated from the schema itself (all variants, empty and long sequences, arbitrary bytes and strings, extreme integers, nested options) and pushed through: schema encode -> core decode -> value comparison by names -> Rust encode -> schema decode -> re-encode; events are also sent through Bridge::process_event and the returned requests and view decoded under the schema, and capability outputs (HttpResult, KeyValueResult, TimeResponse, PlatformResponse) are offered to Bridge::handle_response as the answer to an outstanding request of the matching kind, after which the app must have received the value they denote; strings, byte buffers and u8 sequences occasionally exceed 64 KiB (rarely 1 MiB); non-trivial = value with >= 2 enum nodes and a non-empty sequence; distinct = distinct (container, value)",
                    assumptions: vec![
                        "the harness codec (wire::codec) implements the bincode configuration of the generated shell code: fixed-width little-endian integers, u64 lengths, u32 variant index, u8 option tag".into(),
                        "the registry is taken from TypeGen's public state (the Tracer) after register_app; the Java stage takes it from the state TypeGen::java leaves behind and requires the two to be equal".into(),
                        "generated code is exercised for Java only (javac is in the sandbox; swiftc and tsc are not); serde-generate's Java runtime has no char: values containing one are skipped there (counted)".into(),
                    ],
                    started,
                    replayed,
                },
                &stats,
                outcome,
            )
        }
    }
}
