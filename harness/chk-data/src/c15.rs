//! C15 — every HTTP result yields exactly one well-classified outcome.
//!
//! Generated: what a shell may answer to an HTTP request — any status 0..=65535, any list of
//! headers (unicode names and values, repeated names, odd content types and charsets), any body,
//! or a shell error — and the body expectation of the app (bytes / string / JSON), for both APIs.
//! Oracle: classification by status class exactly as the property states; status, headers and
//! body unchanged; string bodies equal to the Encoding Standard's `decode` (encoding_rs, label
//! from the last content type's charset parameter); JSON equal to serde_json of the same bytes.

use crux_core::macros::Effect;
use crux_core::render::Render;
use crux_core::{Command, Core, Request};
use crux_http::protocol::{HttpHeader, HttpRequest, HttpResponse, HttpResult};
use crux_http::{HttpError, Response};
use proptest::prelude::*;
use serde::{Deserialize, Serialize};
use std::collections::BTreeMap;
use vkit::{panics::catch, Mode, Outcome, Report, Stats};

pub const KNOWN_STATUS: &[u16] = &[
    100, 101, 103, 200, 201, 202, 203, 204, 205, 206, 207, 226, 300, 301, 302, 303, 304, 307, 308, 400, 401, 402, 403, 404, 405, 406, 407, 408, 409, 410, 411, 412, 413, 414, 415, 416, 417, 418, 421, 422, 423, 424, 425, 426, 428, 429, 431,
    451, 500, 501, 502, 503, 504, 505, 506, 507, 508, 510, 511,
];

#[derive(Debug, Clone, Copy, PartialEq, Eq, Hash, Serialize, Deserialize)]
pub enum Api {
    Command,
    Capability,
    /// capability `send_async()`: the app gets the raw `ResponseAsync` (no classification by status)
    /// and reads status, headers and body (`body_bytes` / `body_string` / `body_json`) itself
    CapabilityAsync,
}
#[derive(Debug, Clone, Copy, PartialEq, Eq, Hash, Serialize, Deserialize)]
pub enum Expect {
    Bytes,
    Str,
    Json,
    /// `expect_json::<T>()` / `body_json::<T>()` for a struct
    Typed,
}

#[derive(Debug, Clone, PartialEq, Deserialize)]
pub struct TypedJ {
    pub a: u32,
    #[serde(default)]
    pub b: Option<String>,
    pub c: Vec<i16>,
}
#[derive(Debug, Clone, PartialEq, Eq, Hash, Serialize, Deserialize)]
pub enum Reply {
    Response { status: u16, headers: Vec<(String, String)>, body: Vec<u8> },
    Url(String),
    Io(String),
    Timeout,
}
#[derive(Debug, Clone, PartialEq, Eq, Hash, Serialize, Deserialize)]
pub struct Case {
    pub api: Api,
    pub expect: Expect,
    pub reply: Reply,
    /// results the same thread's earlier requests received (same API and expectation), oldest first:
    /// every one of them is judged like `reply`, so a case is a short history and whatever one result
    /// leaves behind for a later one (a cache, a memo) shows in a replayable case
    #[serde(default)]
    pub earlier: Vec<Reply>,
}

/// what the app was told, reduced to comparable data
#[derive(Debug, Clone, PartialEq)]
pub enum Seen {
    Ok { status: u16, headers: BTreeMap<String, Vec<String>>, body: Body },
    HttpErr { status: u16, body: Option<Vec<u8>>, message: String },
    JsonErr(String),
    /// async API: reading the body as a string failed
    DecodeErr(String),
    Url(String),
    Io(String),
    Timeout,
}
#[derive(Debug, Clone, PartialEq)]
pub enum Body {
    Bytes(Option<Vec<u8>>),
    Str(Option<String>),
    Json(Option<serde_json::Value>),
    Typed(Option<TypedJ>),
}

fn headers_of<B>(r: &Response<B>) -> BTreeMap<String, Vec<String>> {
    r.iter().map(|(n, vs)| (n.as_str().to_string(), vs.iter().map(|v| v.as_str().to_string()).collect())).collect()
}
fn seen<B>(r: crux_http::Result<Response<B>>, body: impl FnOnce(&Response<B>) -> Body) -> Seen {
    match r {
        Ok(r) => Seen::Ok { status: r.status() as u16, headers: headers_of(&r), body: body(&r) },
        Err(HttpError::Http { code, body, message }) => Seen::HttpErr { status: code as u16, body, message },
        Err(HttpError::Json(m)) => Seen::JsonErr(m),
        Err(HttpError::Url(m)) => Seen::Url(m),
        Err(HttpError::Io(m)) => Seen::Io(m),
        Err(HttpError::Timeout) => Seen::Timeout,
    }
}

pub enum Event {
    Go(Expect),
    Bytes(crux_http::Result<Response<Vec<u8>>>),
    Str(crux_http::Result<Response<String>>),
    Json(crux_http::Result<Response<serde_json::Value>>),
    Typed(crux_http::Result<Response<TypedJ>>),
    GoAsync(Expect),
    Async(Seen),
}

#[derive(Effect)]
#[allow(dead_code)]
pub struct Capabilities {
    pub http: crux_http::Http<Event>,
    pub compose: crux_core::compose::Compose<Event>,
    pub render: Render<Event>,
}
#[derive(Default)]
pub struct App;
#[derive(Default)]
pub struct Model {
    seen: Vec<Seen>,
}
impl crux_core::App for App {
    type Event = Event;
    type Model = Model;
    type ViewModel = ();
    type Capabilities = Capabilities;
    type Effect = Effect;
    fn update(&self, ev: Event, m: &mut Model, caps: &Capabilities) -> Command<Effect, Event> {
        match ev {
            Event::Go(e) => {
                let b = caps.http.get("http://example.com/");
                match e {
                    Expect::Bytes => b.send(Event::Bytes),
                    Expect::Str => b.expect_string().send(Event::Str),
                    Expect::Json => b.expect_json::<serde_json::Value>().send(Event::Json),
                    Expect::Typed => b.expect_json::<TypedJ>().send(Event::Typed),
                }
            }
            Event::GoAsync(e) => {
                let http = caps.http.clone();
                caps.compose.spawn(|ctx| async move {
                    let seen = match http.get("http://example.com/").send_async().await {
                        Err(HttpError::Http { code, body, message }) => Seen::HttpErr { status: code as u16, body, message },
                        Err(HttpError::Json(m)) => Seen::JsonErr(m),
                        Err(HttpError::Url(m)) => Seen::Url(m),
                        Err(HttpError::Io(m)) => Seen::Io(m),
                        Err(HttpError::Timeout) => Seen::Timeout,
                        Ok(mut r) => {
                            let status = r.status() as u16;
                            let headers: BTreeMap<String, Vec<String>> = r.iter().map(|(n, vs)| (n.as_str().to_string(), vs.iter().map(|v| v.as_str().to_string()).collect())).collect();
                            let body = match e {
                                Expect::Bytes => r.body_bytes().await.map(|b| Body::Bytes(Some(b))),
                                Expect::Str => r.body_string().await.map(|b| Body::Str(Some(b))),
                                Expect::Json => r.body_json::<serde_json::Value>().await.map(|b| Body::Json(Some(b))),
                                Expect::Typed => r.body_json::<TypedJ>().await.map(|b| Body::Typed(Some(b))),
                            };
                            match body {
                                Ok(body) => Seen::Ok { status, headers, body },
                                Err(HttpError::Json(m)) => Seen::JsonErr(m),
                                Err(other) => Seen::DecodeErr(other.to_string()),
                            }
                        }
                    };
                    ctx.update_app(Event::Async(seen));
                });
            }
            Event::Async(s) => m.seen.push(s),
            Event::Typed(r) => m.seen.push(seen(r, |r| Body::Typed(r.body().cloned()))),
            Event::Bytes(r) => m.seen.push(seen(r, |r| Body::Bytes(r.body().cloned()))),
            Event::Str(r) => m.seen.push(seen(r, |r| Body::Str(r.body().cloned()))),
            Event::Json(r) => m.seen.push(seen(r, |r| Body::Json(r.body().cloned()))),
        }
        Command::done()
    }
    fn view(&self, m: &Model) {
        SEEN_TAP.with(|t| *t.borrow_mut() = m.seen.clone());
    }
}

pub enum CmdEffect {
    Http(Request<HttpRequest>),
}
impl From<Request<HttpRequest>> for CmdEffect {
    fn from(r: Request<HttpRequest>) -> Self {
        CmdEffect::Http(r)
    }
}

fn http_result(reply: &Reply) -> HttpResult {
    match reply {
        Reply::Response { status, headers, body } => HttpResult::Ok(HttpResponse { status: *status, headers: headers.iter().map(|(n, v)| HttpHeader { name: n.clone(), value: v.clone() }).collect(), body: body.clone() }),
        Reply::Url(m) => HttpResult::Err(HttpError::Url(m.clone())),
        Reply::Io(m) => HttpResult::Err(HttpError::Io(m.clone())),
        Reply::Timeout => HttpResult::Err(HttpError::Timeout),
    }
}

/// run the real code; Ok(outcomes) or Err(panic message)
fn observe(c: &Case) -> Result<Vec<Seen>, String> {
    catch(|| match c.api {
        Api::Command => {
            type H = crux_http::command::Http<CmdEffect, Event>;
            let b = H::get("http://example.com/");
            let mut cmd: Command<CmdEffect, Event> = match c.expect {
                Expect::Bytes => b.build().then_send(Event::Bytes),
                Expect::Str => b.expect_string().build().then_send(Event::Str),
                Expect::Json => b.expect_json::<serde_json::Value>().build().then_send(Event::Json),
                Expect::Typed => b.expect_json::<TypedJ>().build().then_send(Event::Typed),
            };
            let mut effs: Vec<CmdEffect> = cmd.effects().collect();
            let mut out = vec![];
            if effs.len() != 1 {
                return out;
            }
            let CmdEffect::Http(mut req) = effs.remove(0);
            req.resolve(http_result(&c.reply)).expect("first resolution");
            for ev in cmd.events() {
                out.push(match ev {
                    Event::Bytes(r) => seen(r, |r| Body::Bytes(r.body().cloned())),
                    Event::Str(r) => seen(r, |r| Body::Str(r.body().cloned())),
                    Event::Json(r) => seen(r, |r| Body::Json(r.body().cloned())),
                    Event::Typed(r) => seen(r, |r| Body::Typed(r.body().cloned())),
                    Event::Go(_) | Event::GoAsync(_) | Event::Async(_) => unreachable!(),
                });
            }
            out
        }
        Api::Capability | Api::CapabilityAsync => {
            let core: Core<App> = Core::new();
            let effs = core.process_event(if c.api == Api::Capability { Event::Go(c.expect) } else { Event::GoAsync(c.expect) });
            let mut https: Vec<Request<HttpRequest>> = effs.into_iter().filter_map(|e| if let Effect::Http(r) = e { Some(r) } else { None }).collect();
            if https.len() != 1 {
                return vec![];
            }
            let _ = core.resolve(&mut https[0], http_result(&c.reply)).expect("first resolution");
            core_seen(&core)
        }
    })
}

/// read the model's outcomes (the app has no serializable view; peek through a second event-free call)
fn core_seen(core: &Core<App>) -> Vec<Seen> {
    // `Core` exposes the model only through `view`; make `view` carry the outcomes by a thread-local swap
    SEEN_TAP.with(|t| t.borrow_mut().clear());
    let _ = core.view();
    SEEN_TAP.with(|t| t.borrow().clone())
}
thread_local! { static SEEN_TAP: std::cell::RefCell<Vec<Seen>> = const { std::cell::RefCell::new(vec![]) }; }

fn charset(headers: &[(String, String)]) -> Option<String> {
    let last = headers.iter().filter(|(n, _)| n.eq_ignore_ascii_case("content-type")).last()?;
    for part in last.1.split(';').skip(1) {
        let mut kv = part.splitn(2, '=');
        let k = kv.next()?.trim();
        let v = kv.next().unwrap_or("").trim().trim_matches('"');
        if k.eq_ignore_ascii_case("charset") {
            return Some(v.to_string());
        }
    }
    None
}
/// What a conforming decoder yields. `Exactly(s)`: the label names an encoding and the bytes are
/// well-formed; `Malformed`: the label names an encoding, the bytes are malformed (only an error value
/// is acceptable); `NoSuchEncoding(fallback)`: the charset parameter is empty or not a label of the
/// Encoding Standard — the standard's callers fall back to UTF-8 there, crux reports an error; both
/// are accepted (an error value, or the UTF-8 fallback decode).
enum Reference {
    Exactly(String),
    Malformed,
    NoSuchEncoding(Option<String>),
}
fn reference_decode(body: &[u8], headers: &[(String, String)]) -> Reference {
    let label = charset(headers).unwrap_or_else(|| "utf-8".into());
    match encoding_rs::Encoding::for_label(label.as_bytes()) {
        Some(enc) => {
            let (s, _, malformed) = enc.decode(body);
            if malformed {
                Reference::Malformed
            } else {
                Reference::Exactly(s.into_owned())
            }
        }
        None => {
            let (s, _, malformed) = encoding_rs::UTF_8.decode(body);
            Reference::NoSuchEncoding(if malformed { None } else { Some(s.into_owned()) })
        }
    }
}
fn header_model(hs: &[(String, String)]) -> BTreeMap<String, Vec<String>> {
    let mut m = BTreeMap::new();
    for (n, v) in hs {
        m.entry(n.to_ascii_lowercase()).or_insert_with(Vec::new).push(v.clone());
    }
    m
}

/// Err((signature, explanation))
pub fn judge(c: &Case) -> Result<(), (String, String)> {
    for e in &c.earlier {
        judge_one(&Case { api: c.api, expect: c.expect, reply: e.clone(), earlier: vec![] })?;
    }
    judge_one(c)
}

fn judge_one(c: &Case) -> Result<(), (String, String)> {
    let seen = match observe(c) {
        Ok(s) => s,
        Err(panic) => {
            let sig = match &c.reply {
                Reply::Response { status, .. } if !KNOWN_STATUS.contains(status) => "panic-status-outside-http-types-table",
                Reply::Response { headers, .. } if headers.iter().any(|(n, v)| !n.is_ascii() || !v.is_ascii()) => "panic-non-ascii-header",
                _ => "panic",
            };
            return Err((sig.into(), format!("the core panicked on a shell reply: {panic}")));
        }
    };
    if seen.len() != 1 {
        return Err(("outcome-count".into(), format!("{} outcomes for one HTTP result", seen.len())));
    }
    let got = &seen[0];
    match &c.reply {
        Reply::Url(m) => (got == &Seen::Url(m.clone())).then_some(()).ok_or(("shell-error-altered".into(), format!("shell error Url({m:?}) reached the app as {got:?}"))),
        Reply::Io(m) => (got == &Seen::Io(m.clone())).then_some(()).ok_or(("shell-error-altered".into(), format!("shell error Io({m:?}) reached the app as {got:?}"))),
        Reply::Timeout => (got == &Seen::Timeout).then_some(()).ok_or(("shell-error-altered".into(), format!("shell error Timeout reached the app as {got:?}"))),
        Reply::Response { status, headers, body } => {
            if *status >= 400 && *status <= 599 && c.api != Api::CapabilityAsync {
                return match got {
                    Seen::HttpErr { status: s, body: b, .. } if s == status && b.as_ref() == Some(body) => Ok(()),
                    other => Err(("error-status-misclassified".into(), format!("status {status} must become an HTTP error carrying status and body, got {other:?}"))),
                };
            }
            // success class
            let want_headers = header_model(headers);
            let check_meta = |s: u16, h: &BTreeMap<String, Vec<String>>| -> Result<(), (String, String)> {
                if s != *status {
                    return Err(("status-altered".into(), format!("status {status} became {s}")));
                }
                if h != &want_headers {
                    // the one known shape: http-types adds "application/octet-stream" in front of (or instead of a missing) content type
                    let mut patched = want_headers.clone();
                    patched.entry("content-type".into()).or_default().insert(0, "application/octet-stream".into());
                    let sig = if h == &patched { "content-type-octet-stream-injected" } else { "headers-altered" };
                    return Err((sig.into(), format!("the shell sent headers {want_headers:?}, the app sees {h:?}")));
                }
                Ok(())
            };
            match (c.expect, got) {
                (Expect::Bytes, Seen::Ok { status: s, headers: h, body: Body::Bytes(b) }) => {
                    if b.as_ref() != Some(body) {
                        return Err(("body-altered".into(), format!("body {body:?} became {b:?}")));
                    }
                    check_meta(*s, h)
                }
                (Expect::Str, Seen::Ok { status: s, headers: h, body: Body::Str(b) }) => {
                    let Some(b) = b else { return Err(("body-missing".into(), "string body missing".into())) };
                    if std::str::from_utf8(b.as_bytes()).is_err() {
                        return Err(("invalid-utf8-string".into(), "the app received a String that is not valid UTF-8".into()));
                    }
                    let want = match reference_decode(body, headers) {
                        Reference::Malformed => return Err(("undecodable-accepted".into(), format!("body {body:?} is malformed in charset {:?}, yet the app received {b:?}", charset(headers)))),
                        Reference::NoSuchEncoding(None) => return Err(("undecodable-accepted".into(), format!("body {body:?} has no decodable reading (charset {:?}), yet the app received {b:?}", charset(headers)))),
                        Reference::Exactly(want) | Reference::NoSuchEncoding(Some(want)) => want,
                    };
                    if &want != b {
                        let sig = if b.strip_prefix('\u{feff}') == Some(want.as_str()) { "utf8-bom-retained" } else { "string-decoded-differently" };
                        return Err((sig.into(), format!("charset {:?}: a conforming decoder yields {want:?}, the app received {b:?}", charset(headers))));
                    }
                    check_meta(*s, h)
                }
                // an error value is what the statement allows when no conforming decoding exists
                (Expect::Str, Seen::HttpErr { .. }) if !matches!(reference_decode(body, headers), Reference::Exactly(_)) => Ok(()),
                (Expect::Json, Seen::Ok { status: s, headers: h, body: Body::Json(b) }) => match serde_json::from_slice::<serde_json::Value>(body) {
                    Ok(want) if b.as_ref() == Some(&want) => check_meta(*s, h),
                    Ok(want) => Err(("json-altered".into(), format!("JSON {want} became {b:?}"))),
                    Err(_) => Err(("invalid-json-accepted".into(), "invalid JSON was accepted".into())),
                },
                (Expect::Json, Seen::JsonErr(_)) if serde_json::from_slice::<serde_json::Value>(body).is_err() => Ok(()),
                (Expect::Typed, Seen::Ok { status: s, headers: h, body: Body::Typed(b) }) => match serde_json::from_slice::<TypedJ>(body) {
                    Ok(want) if b.as_ref() == Some(&want) => check_meta(*s, h),
                    Ok(want) => Err(("json-altered".into(), format!("typed JSON {want:?} became {b:?}"))),
                    Err(_) => Err(("invalid-json-accepted".into(), "a body that is not a valid encoding of the expected type was accepted".into())),
                },
                (Expect::Typed, Seen::JsonErr(_)) if serde_json::from_slice::<TypedJ>(body).is_err() => Ok(()),
                // async API: an undecodable string body is reported by whatever error `body_string` returns
                (Expect::Str, Seen::DecodeErr(_)) if c.api == Api::CapabilityAsync && !matches!(reference_decode(body, headers), Reference::Exactly(_)) => Ok(()),
                (_, other) => Err(("success-misclassified".into(), format!("status {status} ({:?} expected) reached the app as {other:?}", c.expect))),
            }
        }
    }
}

fn names() -> BoxedStrategy<String> {
    prop_oneof![1 => Just("content-length".to_string()), 1 => Just("Content-Length".to_string()), 1 => Just("transfer-encoding".to_string()), 1 => Just("content-encoding".to_string()), 4 => "[a-z][a-z0-9-]{0,10}", 2 => "[A-Z][a-zA-Z-]{0,8}", 2 => Just("content-type".to_string()), 1 => Just("Content-Type".to_string()), 1 => Just("set-cookie".to_string()), 1 => "[a-z]{1,4} [a-z]{1,4}", 1 => Just(String::new()), 1 => "\\PC{1,6}"].boxed()
}
fn content_types() -> BoxedStrategy<String> {
    let labels = vec!["utf-8", "UTF-8", "utf8", "euc-kr", "windows-1252", "iso-8859-1", "utf-16le", "utf-16be", "utf-16", "shift_jis", "gbk", "big5", "iso-2022-jp", "x-user-defined", "replacement", "bogus", ""];
    prop_oneof![
        2 => Just("text/plain".to_string()),
        1 => Just("application/json".to_string()),
        1 => Just("garbage".to_string()),
        6 => (proptest::sample::select(labels), any::<bool>(), any::<bool>()).prop_map(|(l, quoted, spaced)| format!("text/plain;{}charset={}", if spaced { " " } else { "" }, if quoted { format!("\"{l}\"") } else { l.to_string() })),
    ]
    .boxed()
}
fn values() -> BoxedStrategy<String> {
    prop_oneof![4 => "[ -~]{0,16}", 1 => Just(String::new()), 1 => "\\PC{1,8}"].boxed()
}
/// JSON texts from a grammar (strings with raw non-ASCII, escapes, surrogate pairs and lone
/// surrogates; numbers of every shape; nesting; repeated keys; optional white space), most of them
/// objects that fit or nearly fit the typed expectation
fn json_texts() -> BoxedStrategy<String> {
    let string = prop_oneof![
        4 => "[ !#-\\[\\]-~]{0,8}",
        2 => "[a-zé€😀]{1,5}",
        1 => Just("\\u00e9\\n\\\"".to_string()),
        1 => Just("\\ud83d\\ude00".to_string()),
        1 => Just("\\ud800".to_string()),
        1 => Just("\\x".to_string()),
    ]
    .prop_map(|s| format!("\"{s}\""));
    let number = prop_oneof![
        3 => any::<i16>().prop_map(|n| n.to_string()),
        1 => any::<u32>().prop_map(|n| n.to_string()),
        1 => any::<i64>().prop_map(|n| n.to_string()),
        1 => Just("1.5".to_string()),
        1 => Just("1e3".to_string()),
        1 => Just("-0".to_string()),
        1 => Just("01".to_string()),
        1 => Just("18446744073709551616".to_string()),
        1 => Just("1e400".to_string()),
    ];
    let leaf = prop_oneof![1 => Just("null".to_string()), 1 => Just("true".to_string()), 3 => number.clone(), 3 => string.clone()];
    let value = leaf.prop_recursive(3, 12, 4, {
        let string = string.clone();
        move |inner| {
            prop_oneof![
                prop::collection::vec(inner.clone(), 0..4).prop_map(|v| format!("[{}]", v.join(","))),
                prop::collection::vec((string.clone(), inner), 0..4).prop_map(|v| format!("{{{}}}", v.into_iter().map(|(k, v)| format!("{k}: {v}")).collect::<Vec<_>>().join(" ,"))),
            ]
        }
    });
    let typed = (
        prop_oneof![4 => any::<u32>().prop_map(|n| n.to_string()), 1 => number.clone()],
        proptest::option::of(prop_oneof![4 => string.clone(), 1 => Just("null".to_string())]),
        prop::collection::vec(prop_oneof![6 => any::<i16>().prop_map(|n| n.to_string()), 1 => number], 0..4),
        any::<u8>(),
    )
        .prop_map(|(a, b, c, order)| {
            let mut fields = vec![format!("\"a\":{a}"), format!("\"c\":[{}]", c.join(","))];
            if let Some(b) = b {
                fields.push(format!("\"b\":{b}"));
            }
            if order % 5 == 4 {
                fields.push(fields[0].clone()); // a repeated key
            }
            let k = order as usize % fields.len();
            fields.rotate_left(k);
            format!("{{{}}}", fields.join(if order & 64 == 0 { "," } else { " ,\n" }))
        });
    prop_oneof![2 => value, 3 => typed].boxed()
}

/// ... and the same with one byte replaced (a non-UTF-8 byte inside a string literal is what a
/// lossy decoder would silently turn into U+FFFD), cut short, or followed by more
fn json_bodies() -> BoxedStrategy<Vec<u8>> {
    (json_texts(), 0u8..14, any::<u16>(), proptest::sample::select(vec![0xe9u8, 0x80, 0xc3, 0xff, 0x00, b'"', b'\\', b'}', b' ']))
        .prop_map(|(t, how, at, byte)| {
            let mut b = t.into_bytes();
            if !b.is_empty() {
                let i = at as usize % b.len();
                match how {
                    12 | 13 => {
                        // one plain character inside a string literal becomes a byte that is not UTF-8 there
                        let (mut inside, mut esc, mut cands) = (false, false, vec![]);
                        for (k, c) in b.iter().enumerate() {
                            match (inside, esc, *c) {
                                (true, true, _) => esc = false,
                                (true, false, b'\\') => esc = true,
                                (true, false, b'"') => inside = false,
                                (true, false, c) if c.is_ascii() => cands.push(k),
                                (false, _, b'"') => inside = true,
                                _ => {}
                            }
                        }
                        if !cands.is_empty() {
                            b[cands[at as usize % cands.len()]] = [0xe9u8, 0x80, 0xc3, 0xff][how as usize % 2 * 2 + (at as usize / 97) % 2];
                        }
                    }
                    0..=2 => b[i] = byte,
                    3 => b.insert(i, byte),
                    4 => b.truncate(i),
                    5 => b.extend_from_slice(b" x"),
                    _ => {}
                }
            }
            b
        })
        .boxed()
}

fn bodies() -> BoxedStrategy<Vec<u8>> {
    prop_oneof![
        8 => json_bodies(),
        2 => Just(vec![]),
        3 => "[ -~]{1,20}".prop_map(|s| s.into_bytes()),
        2 => "\\PC{1,12}".prop_map(|s| s.into_bytes()),
        2 => prop::collection::vec(any::<u8>(), 1..12),
        1 => "\\PC{0,6}".prop_map(|s| [&[0xef, 0xbb, 0xbf][..], s.as_bytes()].concat()),
        1 => prop::collection::vec(any::<u8>(), 0..6).prop_map(|v| [&[0xff, 0xfe][..], &v].concat()),
        1 => prop::collection::vec(any::<u8>(), 0..6).prop_map(|v| [&[0xfe, 0xff][..], &v].concat()),
        1 => Just(vec![0xb3, 0xbb, 0x20, 0xc7, 0xb0, 0xc0, 0xb8]),
        2 => Just(b"{\"a\":[1,2,{\"b\":null}],\"c\":\"\\u00e9\"}".to_vec()),
        2 => prop_oneof![Just(&b"{\"a\":1,\"c\":[1,-2]}"[..]), Just(&b"{\"c\":[],\"b\":\"\\u00e9\",\"a\":4294967295}"[..]), Just(&b"{\"a\":-1,\"c\":[]}"[..]), Just(&b"{\"a\":1,\"c\":[1],\"extra\":true}"[..]), Just(&b"{\"a\":1,\"c\":[]}}"[..]), Just(&b"{\"a\":1,\"c\":[]} \n"[..]), Just(&b"{\"a\":1,\"c\":[40000]}"[..]), Just(&b"[1,2]trailing"[..])].prop_map(|b| b.to_vec()),
        1 => Just(b"{bad json".to_vec()),
        1 => Just(b"123".to_vec()),
        1 => prop::collection::vec(any::<u8>(), 4000..6000),
    ]
    .boxed()
}
fn statuses() -> BoxedStrategy<u16> {
    prop_oneof![6 => proptest::sample::select(KNOWN_STATUS.to_vec()), 5 => proptest::sample::select(vec![200u16, 201, 204, 206, 301, 304]), 2 => 100u16..600, 1 => 0u16..100, 1 => 600u16..=u16::MAX, 1 => proptest::sample::select(vec![0u16, 99, 102, 208, 299, 305, 306, 399, 419, 499, 509, 599, 600, 999, 65535])].boxed()
}

pub fn strategy() -> BoxedStrategy<Case> {
    // framing headers with values that contradict the body the shell actually returns (a shell that
    // decompresses transparently keeps the original headers): the body is what the shell returned
    let framing = prop_oneof![Just("0".to_string()), Just("1".to_string()), Just("3".to_string()), Just(" 2 ".to_string()), Just("999999".to_string()), Just("chunked".to_string()), Just("gzip".to_string()), Just("x".to_string())];
    let header = names().prop_flat_map(move |n| {
        if n.eq_ignore_ascii_case("content-type") {
            content_types().prop_map(move |v| (n.clone(), v)).boxed()
        } else if ["content-length", "transfer-encoding", "content-encoding"].iter().any(|f| n.eq_ignore_ascii_case(f)) {
            framing.clone().prop_map(move |v| (n.clone(), v)).boxed()
        } else {
            values().prop_map(move |v| (n.clone(), v)).boxed()
        }
    });
    let reply = prop_oneof![
        12 => (statuses(), prop::collection::vec(header, 0..4), bodies()).prop_map(|(status, headers, body)| Reply::Response { status, headers, body }),
        1 => values().prop_map(Reply::Url),
        1 => values().prop_map(Reply::Io),
        1 => Just(Reply::Timeout),
    ];
    (prop_oneof![Just(Api::Command), Just(Api::Capability), Just(Api::CapabilityAsync)], prop_oneof![Just(Expect::Bytes), Just(Expect::Str), Just(Expect::Json), Just(Expect::Typed)], reply.clone(), prop_oneof![3 => Just(vec![]).boxed(), 1 => prop::collection::vec(reply, 1..3).boxed()]).prop_map(|(api, expect, reply, earlier)| Case { api, expect, reply, earlier }).boxed()
}

pub const KNOWN_SIGS: &[&str] = &["panic-status-outside-http-types-table", "panic-non-ascii-header", "content-type-octet-stream-injected", "utf8-bom-retained"];

fn reproducer(sig: &str) -> Option<Case> {
    let resp = |status, headers: Vec<(&str, &str)>, body: &[u8], expect| Case { api: Api::Command, expect, earlier: vec![], reply: Reply::Response { status, headers: headers.into_iter().map(|(a, b)| (a.to_string(), b.to_string())).collect(), body: body.to_vec() } };
    Some(match sig {
        "panic-status-outside-http-types-table" => resp(299, vec![], b"", Expect::Bytes),
        "panic-non-ascii-header" => resp(200, vec![("x-a", "é")], b"", Expect::Bytes),
        "content-type-octet-stream-injected" => resp(200, vec![("content-type", "text/plain")], b"x", Expect::Bytes),
        "utf8-bom-retained" => resp(200, vec![], &[0xef, 0xbb, 0xbf, b'a'], Expect::Str),
        _ => return None,
    })
}

pub fn main(mode: Mode) {
    let prop = "C15";
    let known = vkit::known_findings(prop);
    let stats = Stats::new();
    let check = |c: &Case| -> Result<(), String> {
        let nt = matches!(&c.reply, Reply::Response { status, headers, body } if *status != 200 && *status != 404 && headers.len() >= 2 && !body.is_ascii());
        let labels = [
            match c.api {
                Api::Command => "api:command",
                Api::Capability => "api:capability",
                Api::CapabilityAsync => "api:capability-async",
            },
            match c.expect {
                Expect::Bytes => "expect:bytes",
                Expect::Str => "expect:string",
                Expect::Json => "expect:json",
                Expect::Typed => "expect:typed-json",
            },
            match &c.reply {
                Reply::Response { status, .. } if !KNOWN_STATUS.contains(status) => "status:unknown-to-http-types",
                Reply::Response { status, .. } if *status >= 400 && *status < 600 => "status:4xx-5xx",
                Reply::Response { .. } => "status:1xx-3xx",
                _ => "shell-error",
            },
            match (&c.expect, &c.reply) {
                (Expect::Json, Reply::Response { status, body, .. }) if KNOWN_STATUS.contains(status) && *status < 400 => {
                    if serde_json::from_slice::<serde_json::Value>(body).is_ok() {
                        "json-expectation:body-is-valid-json"
                    } else if String::from_utf8_lossy(body).parse::<serde_json::Value>().is_ok() {
                        "json-expectation:body-is-json-but-for-a-non-utf8-byte"
                    } else {
                        "json-expectation:body-is-not-json"
                    }
                }
                (Expect::Typed, Reply::Response { status, body, .. }) if KNOWN_STATUS.contains(status) && *status < 400 => {
                    if serde_json::from_slice::<TypedJ>(body).is_ok() {
                        "typed-expectation:body-fits"
                    } else if serde_json::from_str::<TypedJ>(&String::from_utf8_lossy(body)).is_ok() {
                        "typed-expectation:body-fits-but-for-a-non-utf8-byte"
                    } else {
                        "typed-expectation:body-does-not-fit"
                    }
                }
                _ => "json-expectation:n/a",
            },
        ];
        match judge(c) {
            Ok(()) => {
                stats.case(c, nt, &labels);
                if nt && stats.wants_sample() {
                    stats.sample(|| serde_json::to_value(c).unwrap());
                }
                Ok(())
            }
            Err((sig, why)) => {
                if KNOWN_SIGS.contains(&sig.as_str()) && vkit::is_known(&known, &sig) {
                    stats.case(c, nt, &labels);
                    stats.excluded_known(&sig);
                    Ok(())
                } else {
                    Err(format!("[{sig}] {why}"))
                }
            }
        }
    };
    match mode {
        Mode::Replay(path) => {
            let res = vkit::read_replay(&path).and_then(|v| serde_json::from_value::<Case>(v).map_err(|e| e.to_string())).and_then(|c| check(&c));
            vkit::finish_replay(prop, &path, res)
        }
        Mode::Run(tier) => {
            let started = std::time::Instant::now();
            for k in &known {
                if let Some(c) = reproducer(&k.sig) {
                    if matches!(judge(&c), Err((s, _)) if s == k.sig) {
                        vkit::print_known_finding(k);
                    }
                }
            }
            let mut replayed = 0;
            for f in vkit::replay_files(prop) {
                replayed += 1;
                if let Err(why) = vkit::read_replay(&f).and_then(|v| serde_json::from_value::<Case>(v).map_err(|e| e.to_string())).and_then(|c| check(&c)) {
                    println!("why: {why}");
                    println!("VIOLATION property={prop} replay={}", f.display());
                    std::process::exit(1);
                }
            }
            let outcome = vkit::run_prop(prop, vkit::workers_for(tier), tier.pick(8_000, 300_000), strategy, check);
            let outcome = match outcome {
                Outcome::Held if stats.distinct_nontrivial() < 2 => Outcome::Inconclusive("generator produced no non-trivial case".into()),
                o => o,
            };
            vkit::finish(
                Report {
                    prop,
                    tier,
                    rule: "a shell reply (status 0..=65535 weighted towards the 59 codes http-types knows and the class boundaries; 0-3 headers with ASCII/unicode/empty names, repeated and mixed-case content types with 17 charset labels, quoted and spaced parameters; bodies: empty, ASCII, unicode, random bytes, UTF-8/UTF-16 BOMs, EUC-KR text, valid and invalid JSON, 4-6 kB; or a shell error) x body expectation (bytes, string, JSON) x API (command, capability); non-trivial = status other than 200/404 with >= 2 headers and a non-ASCII body; distinct = distinct case",
                    assumptions: vec!["the conforming decoder is encoding_rs's `decode` (Encoding Standard, BOM sniffing) applied with the label of the last content-type header's charset parameter, default utf-8".into(), "header names are compared case-insensitively, values per name in order".into()],
                    started,
                    replayed,
                },
                &stats,
                outcome,
            )
        }
    }
}
