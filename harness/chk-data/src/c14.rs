//! C14 — an HTTP request reaches the shell exactly as the app described it.
//!
//! Generated: a request description (method, URL from components, header operations incl.
//! repeated / mixed-case / multi-valued names, body kind and content, optional query struct,
//! explicit content type before or after the body), built through the command API or the
//! capability API. Oracle: an independent description of the expected wire request.

use crux_core::macros::Effect;
use crux_core::render::Render;
use crux_core::{Command, Core, Request};
use crux_http::http::headers::HeaderValue;
use crux_http::http::{Body as HBody, Method, Mime};
use crux_http::protocol::HttpRequest;
use proptest::prelude::*;
use serde::{Deserialize, Serialize};
use std::collections::BTreeMap;
use std::str::FromStr;
use vkit::{panics::catch, Mode, Outcome, Report, Stats};

pub const METHODS: &[&str] = &["GET", "HEAD", "POST", "PUT", "DELETE", "PATCH", "OPTIONS", "TRACE", "CONNECT"];

#[derive(Debug, Clone, PartialEq, Eq, Hash, Serialize, Deserialize)]
pub enum BodySpec {
    None,
    Str(String),
    Bytes(Vec<u8>),
    Json(String),
    Form(Vec<(String, String)>),
    /// a reader-backed body; `known_len` = whether its length is declared; `split`: the reader
    /// delivers its bytes in two reads (two chained cursors, split at that position)
    Reader {
        bytes: Vec<u8>,
        known_len: bool,
        #[serde(default)]
        split: Option<u16>,
        /// the reader fails with an I/O error after delivering that many of its bytes (mapped onto the
        /// length): the app's body cannot be read, so nothing may reach the shell in its name
        #[serde(default)]
        fail_after: Option<u16>,
    },
    /// a typed value given to `body_json`: fields not in alphabetical order, an `f32` (by its bits),
    /// a nested struct, an option - things that do not survive a detour through `serde_json::Value`
    Typed { zeta: u32, alpha: String, mid: u32, flag: Option<bool> },
}

#[derive(Serialize)]
struct TypedInner {
    y: f32,
    b: Option<bool>,
    a: u8,
}
#[derive(Serialize)]
struct TypedBody {
    zeta: u32,
    alpha: String,
    mid: f32,
    inner: TypedInner,
    #[serde(rename = "Kebab-Name")]
    renamed: (u8, String),
}

fn typed_body(zeta: u32, alpha: &str, mid: u32, flag: Option<bool>) -> TypedBody {
    let f = f32::from_bits(mid);
    TypedBody { zeta, alpha: alpha.to_string(), mid: f, inner: TypedInner { y: f / 3.0, b: flag, a: zeta as u8 }, renamed: (7, alpha.to_string()) }
}

#[derive(Debug, Clone, PartialEq, Eq, Hash, Serialize, Deserialize)]
pub struct Case {
    pub capability_api: bool,
    pub method: u8,
    pub url: String,
    /// each entry replaces the header of that name (case-insensitively) with the given values
    pub headers: Vec<(String, Vec<String>)>,
    pub body: BodySpec,
    pub content_type_before: Option<String>,
    pub content_type_after: Option<String>,
    pub query: Option<(String, String)>,
    /// give the body through the generic `body(impl Into<Body>)` instead of the dedicated
    /// `body_string` / `body_bytes` / `body_json` / `body_form`; capability API: use
    /// `request(method, url)` instead of the method's own constructor
    #[serde(default)]
    pub generic: bool,
}

#[derive(Serialize)]
struct Q {
    q: String,
    z: String,
}

pub enum Event {
    Go(Box<Case>),
    Done,
}
#[derive(Effect)]
#[allow(dead_code)]
pub struct Capabilities {
    pub http: crux_http::Http<Event>,
    pub render: Render<Event>,
}
#[derive(Default)]
pub struct App;
pub enum CmdEffect {
    Http(Request<HttpRequest>),
}
impl From<Request<HttpRequest>> for CmdEffect {
    fn from(r: Request<HttpRequest>) -> Self {
        CmdEffect::Http(r)
    }
}

/// a reader whose every read is an I/O error
struct FailingReader;
impl futures_util::io::AsyncRead for FailingReader {
    fn poll_read(self: std::pin::Pin<&mut Self>, _: &mut std::task::Context<'_>, _: &mut [u8]) -> std::task::Poll<std::io::Result<usize>> {
        std::task::Poll::Ready(Err(std::io::Error::new(std::io::ErrorKind::ConnectionReset, "the body's source failed")))
    }
}

fn body_of(b: &BodySpec) -> Option<HBody> {
    Some(match b {
        BodySpec::None => return None,
        BodySpec::Str(s) => HBody::from_string(s.clone()),
        BodySpec::Bytes(v) => HBody::from_bytes(v.clone()),
        BodySpec::Json(j) => HBody::from_json(&serde_json::from_str::<serde_json::Value>(j).unwrap()).unwrap(),
        BodySpec::Form(f) => HBody::from_form(f).unwrap(),
        BodySpec::Reader { bytes, known_len, fail_after: Some(k), .. } if !bytes.is_empty() => {
            use futures_util::io::AsyncReadExt;
            let len = if *known_len { Some(bytes.len()) } else { None };
            // at least the last byte is never delivered
            let k = *k as usize % bytes.len();
            HBody::from_reader(futures_util::io::BufReader::new(futures_util::io::Cursor::new(bytes[..k].to_vec()).chain(FailingReader)), len)
        }
        BodySpec::Reader { bytes, known_len, split, .. } => {
            let len = if *known_len { Some(bytes.len()) } else { None };
            match split {
                None => HBody::from_reader(futures_util::io::Cursor::new(bytes.clone()), len),
                Some(k) => {
                    use futures_util::io::AsyncReadExt;
                    let k = if bytes.is_empty() { 0 } else { *k as usize % bytes.len() };
                    HBody::from_reader(futures_util::io::Cursor::new(bytes[..k].to_vec()).chain(futures_util::io::Cursor::new(bytes[k..].to_vec())), len)
                }
            }
        }
        BodySpec::Typed { zeta, alpha, mid, flag } => HBody::from_json(&typed_body(*zeta, alpha, *mid, *flag)).unwrap(),
    })
}

macro_rules! describe {
    ($b:expr, $c:expr) => {{
        let mut b = $b;
        let c: &Case = $c;
        if let Some(ct) = &c.content_type_before {
            b = b.content_type(Mime::from_str(ct).unwrap());
        }
        for (n, vs) in &c.headers {
            let vals: Vec<HeaderValue> = vs.iter().map(|v| HeaderValue::from_str(v).unwrap()).collect();
            b = b.header(n.as_str(), &vals[..]);
        }
        match (&c.body, c.generic) {
            (BodySpec::None, _) => {}
            (BodySpec::Str(s), false) => b = b.body_string(s.clone()),
            (BodySpec::Bytes(v), false) => b = b.body_bytes(v),
            (BodySpec::Json(j), false) => b = b.body_json(&serde_json::from_str::<serde_json::Value>(j).unwrap()).unwrap(),
            (BodySpec::Typed { zeta, alpha, mid, flag }, false) => b = b.body_json(&typed_body(*zeta, alpha, *mid, *flag)).unwrap(),
            (BodySpec::Form(f), false) => b = b.body_form(f).unwrap(),
            (other, _) => b = b.body(body_of(other).unwrap()),
        }
        if let Some(ct) = &c.content_type_after {
            b = b.content_type(Mime::from_str(ct).unwrap());
        }
        if let Some((q, z)) = &c.query {
            b = b.query(&Q { q: q.clone(), z: z.clone() }).unwrap();
        }
        b
    }};
}

impl crux_core::App for App {
    type Event = Event;
    type Model = ();
    type ViewModel = ();
    type Capabilities = Capabilities;
    type Effect = Effect;
    fn update(&self, ev: Event, _: &mut (), caps: &Capabilities) -> Command<Effect, Event> {
        if let Event::Go(c) = ev {
            let url = url::Url::parse(&c.url).unwrap();
            let h = &caps.http;
            let b = match (c.generic, c.method as usize % METHODS.len()) {
                (false, 0) => h.get(url),
                (false, 1) => h.head(url),
                (false, 2) => h.post(url),
                (false, 3) => h.put(url),
                (false, 4) => h.delete(url),
                (false, 5) => h.patch(url),
                (false, 6) => h.options(url),
                (false, 7) => h.trace(url),
                (false, 8) => h.connect(url),
                (_, m) => h.request(Method::from_str(METHODS[m]).unwrap(), url),
            };
            describe!(b, &c).send(|_| Event::Done);
        }
        Command::done()
    }
    fn view(&self, _: &()) {}
}

fn observed(c: &Case) -> Result<Vec<HttpRequest>, String> {
    catch(|| {
        if c.capability_api {
            let core: Core<App> = Core::new();
            core.process_event(Event::Go(Box::new(c.clone()))).into_iter().filter_map(|e| if let Effect::Http(r) = e { Some(r.operation.clone()) } else { None }).collect()
        } else {
            type H = crux_http::command::Http<CmdEffect, Event>;
            let u = &c.url;
            let b = match if c.generic { 99 } else { c.method as usize % METHODS.len() } {
                99 => H::request(Method::from_str(METHODS[c.method as usize % METHODS.len()]).unwrap(), url::Url::parse(u).unwrap()),
                0 => H::get(u),
                1 => H::head(u),
                2 => H::post(u),
                3 => H::put(u),
                4 => H::delete(u),
                5 => H::patch(u),
                6 => H::options(u),
                7 => H::trace(u),
                _ => H::connect(u),
            };
            let mut cmd: Command<CmdEffect, Event> = describe!(b, c).build().then_send(|_| Event::Done);
            cmd.effects().map(|CmdEffect::Http(r)| r.operation.clone()).collect()
        }
    })
}

fn form_encode(pairs: &[(String, String)]) -> String {
    let mut s = url::form_urlencoded::Serializer::new(String::new());
    for (k, v) in pairs {
        s.append_pair(k, v);
    }
    s.finish()
}

#[derive(Debug, Clone, PartialEq)]
enum Ct {
    /// given through `header()`: compared literally
    Literal(Vec<String>),
    /// given through the typed setter, or derived from the body: compared as a mime
    Typed(String),
}

struct Expected {
    method: String,
    url: url::Url,
    headers: BTreeMap<String, Vec<String>>,
    content_type: Option<Ct>,
    body: Vec<u8>,
}

fn expected(c: &Case) -> Expected {
    let mut url = url::Url::parse(&c.url).unwrap();
    if let Some((q, z)) = &c.query {
        url.set_query(Some(&form_encode(&[("q".into(), q.clone()), ("z".into(), z.clone())])));
    }
    let mut headers: BTreeMap<String, Vec<String>> = BTreeMap::new();
    let mut ct: Option<Ct> = c.content_type_before.clone().map(Ct::Typed);
    for (n, vs) in &c.headers {
        if n.eq_ignore_ascii_case("content-type") {
            ct = Some(Ct::Literal(vs.clone()));
        } else {
            headers.insert(n.to_ascii_lowercase(), vs.clone());
        }
    }
    let (body, mime): (Vec<u8>, Option<&str>) = match &c.body {
        BodySpec::None => (vec![], None),
        BodySpec::Str(s) => (s.as_bytes().to_vec(), Some("text/plain;charset=utf-8")),
        BodySpec::Bytes(v) => (v.clone(), Some("application/octet-stream")),
        BodySpec::Json(j) => (serde_json::to_vec(&serde_json::from_str::<serde_json::Value>(j).unwrap()).unwrap(), Some("application/json")),
        BodySpec::Form(f) => (form_encode(f).into_bytes(), Some("application/x-www-form-urlencoded")),
        BodySpec::Reader { bytes, .. } => (bytes.clone(), Some("application/octet-stream")),
        BodySpec::Typed { zeta, alpha, mid, flag } => (serde_json::to_vec(&typed_body(*zeta, alpha, *mid, *flag)).unwrap(), Some("application/json")),
    };
    if ct.is_none() {
        ct = mime.map(|m| Ct::Typed(m.to_string()));
    }
    if let Some(after) = &c.content_type_after {
        ct = Some(Ct::Typed(after.clone()));
    }
    Expected { method: METHODS[c.method as usize % METHODS.len()].to_string(), url, headers, content_type: ct, body }
}

fn mime_eq(a: &str, b: &str) -> bool {
    fn norm(s: &str) -> Option<(String, Vec<(String, String)>)> {
        let mut parts = s.split(';');
        let essence = parts.next()?.trim().to_ascii_lowercase();
        let mut params: Vec<(String, String)> = parts
            .filter_map(|p| {
                let mut kv = p.splitn(2, '=');
                Some((kv.next()?.trim().to_ascii_lowercase(), kv.next()?.trim().trim_matches('"').to_string()))
            })
            .collect();
        params.sort();
        Some((essence, params))
    }
    norm(a).is_some() && norm(a) == norm(b)
}

/// Err((signature, explanation))
pub fn judge(c: &Case) -> Result<(), (String, String)> {
    if let BodySpec::Reader { fail_after: Some(_), bytes, .. } = &c.body {
        if bytes.is_empty() {
            return Ok(()); // (an empty body has nothing to fail on)
        }
        // the app's body cannot be read. What crux does then (today: it panics while building the request)
        // is not C14's business; that a request goes to the shell with a body the app never specified is.
        return match observed(c) {
            Err(_) => Ok(()),
            Ok(reqs) if reqs.is_empty() => Ok(()),
            Ok(reqs) => Err(("failed-body-sent".into(), format!("the body's reader failed, yet a request with a body of {} bytes reached the shell (the app's body had {} bytes)", reqs[0].body.len(), bytes.len()))),
        };
    }
    let reqs = observed(c).map_err(|p| ("panic".to_string(), format!("building or sending the request panicked: {p}")))?;
    if reqs.len() != 1 {
        return Err(("effect-count".into(), format!("{} HTTP effects for one request", reqs.len())));
    }
    let got = &reqs[0];
    let want = expected(c);
    if got.method != want.method {
        return Err(("method".into(), format!("method {:?}, the app asked for {:?}", got.method, want.method)));
    }
    let got_url = url::Url::parse(&got.url).map_err(|e| ("url".to_string(), format!("the effect's url {:?} does not parse: {e}", got.url)))?;
    let same_query = got_url.query_pairs().into_owned().collect::<Vec<_>>() == want.url.query_pairs().into_owned().collect::<Vec<_>>();
    let strip = |u: &url::Url| {
        let mut u = u.clone();
        u.set_query(None);
        u.to_string()
    };
    if strip(&got_url) != strip(&want.url) || !same_query || got_url.query().is_some() != want.url.query().is_some() {
        return Err(("url".into(), format!("url {:?}, the app asked for {:?}", got.url, want.url.to_string())));
    }
    let mut got_headers: BTreeMap<String, Vec<String>> = BTreeMap::new();
    for h in &got.headers {
        got_headers.entry(h.name.to_ascii_lowercase()).or_default().push(h.value.clone());
    }
    let got_ct = got_headers.remove("content-type");
    if got_headers != want.headers {
        return Err(("headers".into(), format!("headers {:?}, the app specified {:?}", got_headers, want.headers)));
    }
    match (&got_ct, &want.content_type) {
        (None, None) => {}
        (Some(g), Some(Ct::Literal(w))) if g == w => {}
        (Some(g), Some(Ct::Typed(w))) if g.len() == 1 && mime_eq(&g[0], w) => {}
        (g, w) => return Err(("content-type".into(), format!("content type {g:?}, expected {w:?}"))),
    }
    if got.body != want.body {
        let sig = if matches!(c.body, BodySpec::Reader { known_len: false, .. }) && got.body.is_empty() { "body-of-unknown-length-lost" } else { "body" };
        return Err((sig.into(), format!("body of {} bytes, the app specified {} bytes ({:?})", got.body.len(), want.body.len(), std::mem::discriminant(&c.body))));
    }
    Ok(())
}

fn urls() -> BoxedStrategy<String> {
    let scheme = prop_oneof![Just("http"), Just("https")];
    let host = prop_oneof![3 => Just("example.com".to_string()), 1 => Just("EXAMPLE.com".to_string()), 1 => Just("bücher.example".to_string()), 1 => Just("127.0.0.1".to_string()), 1 => Just("[::1]".to_string()), 1 => Just("user:pw@example.com".to_string())];
    let port = prop_oneof![4 => Just(String::new()), 1 => Just(":8080".to_string()), 1 => Just(":80".to_string()), 1 => Just(":443".to_string())];
    let seg = prop_oneof![4 => "[a-z0-9._~-]{1,8}", 1 => Just("p%20q".to_string()), 1 => Just("%C3%A9".to_string()), 1 => "\\PC{1,4}".prop_filter("no separators", |s| !s.contains(['/', '?', '#', '\\'])), 1 => Just("..".to_string()), 1 => Just(".".to_string())];
    let path = prop_oneof![1 => Just(String::new()), 1 => Just("/".to_string()), 4 => prop::collection::vec(seg, 1..4).prop_map(|v| format!("/{}", v.join("/")))];
    let query = prop_oneof![3 => Just(String::new()), 2 => Just("?x=1&y=2".to_string()), 1 => Just("?k=v%26w".to_string()), 1 => Just("?".to_string()), 1 => Just("?é=ü".to_string())];
    let frag = prop_oneof![4 => Just(String::new()), 1 => Just("#frag".to_string())];
    (scheme, host, port, path, query, frag).prop_map(|(s, h, p, pa, q, f)| format!("{s}://{h}{p}{pa}{q}{f}")).prop_filter("must be a valid URL (documented precondition)", |u| url::Url::parse(u).is_ok()).boxed()
}

pub fn strategy() -> BoxedStrategy<Case> {
    let name = prop_oneof![3 => "[a-z][a-z0-9-]{0,8}", 2 => Just("x-a".to_string()), 1 => Just("X-A".to_string()), 2 => Just("accept".to_string()), 1 => Just("Accept".to_string()), 1 => Just("authorization".to_string()), 1 => Just("content-type".to_string()), 1 => Just("Content-Type".to_string())];
    let value = prop_oneof![4 => "[!-~][ -~]{0,12}", 1 => Just(String::new()), 1 => Just("text/plain; charset=utf-8".to_string())];
    let header = (name, prop_oneof![6 => prop::collection::vec(value.clone(), 1..3), 1 => prop::collection::vec(value, 3..7)]);
    let json = prop_oneof![Just("{\"a\":[1,\"é\",null],\"b\":{\"c\":1.5}}".to_string()), Just("[]".to_string()), Just("\"s\"".to_string()), Just("{\"z\":1,\"a\":2}".to_string())];
    let body = prop_oneof![
        2 => Just(BodySpec::None),
        2 => prop_oneof![Just(String::new()), "[ -~]{1,16}".boxed(), "\\PC{1,10}".boxed()].prop_map(BodySpec::Str),
        2 => prop_oneof![Just(vec![]), prop::collection::vec(any::<u8>(), 1..10), prop::collection::vec(any::<u8>(), 5000..9000)].prop_map(BodySpec::Bytes),
        2 => json.prop_map(BodySpec::Json),
        2 => prop::collection::vec(("[a-zé]{1,4}", "[a-z &=é]{0,6}"), 0..3).prop_map(BodySpec::Form),
        2 => (prop_oneof![prop::collection::vec(any::<u8>(), 0..12), prop::collection::vec(any::<u8>(), 1500..6000)], any::<bool>(), proptest::option::of(any::<u16>()), proptest::option::weighted(0.15, any::<u16>())).prop_map(|(bytes, known_len, split, fail_after)| BodySpec::Reader { bytes, known_len, split, fail_after }),
        2 => (any::<u32>(), "[a-zé\"]{0,5}", prop_oneof![any::<u32>(), Just(21.3f32.to_bits()), Just(0.1f32.to_bits()), Just(1e20f32.to_bits())], proptest::option::of(any::<bool>())).prop_map(|(zeta, alpha, mid, flag)| BodySpec::Typed { zeta, alpha, mid, flag }),
    ];
    let ct = prop_oneof![Just("application/xml".to_string()), Just("text/csv; charset=utf-8".to_string()), Just("image/png".to_string())];
    (
        any::<bool>(),
        0u8..9,
        urls(),
        // (more header lines than any sorting or hashing threshold a test stays under)
        prop_oneof![14 => prop::collection::vec(header.clone(), 0..5), 1 => prop::collection::vec(header, 30..70)],
        body,
        proptest::option::weighted(0.2, ct.clone()),
        proptest::option::weighted(0.2, ct),
        proptest::option::weighted(0.25, ("[a-z é]{0,5}", "[a-z&=é]{0,5}")),
        proptest::bool::weighted(0.25),
    )
        .prop_map(|(capability_api, method, url, headers, body, content_type_before, content_type_after, query, generic)| Case { capability_api, method, url, headers, body, content_type_before, content_type_after, query, generic })
        .boxed()
}

fn reproducer(sig: &str) -> Option<Case> {
    match sig {
        "body-of-unknown-length-lost" => Some(Case { capability_api: false, method: 2, url: "http://example.com/".into(), headers: vec![], body: BodySpec::Reader { bytes: b"abc".to_vec(), known_len: false, split: None, fail_after: None }, content_type_before: None, content_type_after: None, query: None, generic: true }),
        _ => None,
    }
}

pub fn main(mode: Mode) {
    let prop = "C14";
    let known = vkit::known_findings(prop);
    let stats = Stats::new();
    let check = |c: &Case| -> Result<(), String> {
        let distinct_names: std::collections::BTreeSet<String> = c.headers.iter().map(|(n, _)| n.to_ascii_lowercase()).collect();
        let nt = distinct_names.len() >= 2 && c.headers.iter().any(|(_, v)| v.len() >= 2) && !matches!(c.body, BodySpec::None) && (!c.url.is_ascii() || matches!(&c.body, BodySpec::Str(s) if !s.is_ascii()) || matches!(&c.body, BodySpec::Bytes(b) if !b.is_ascii()));
        let labels = [
            if c.capability_api { "api:capability" } else { "api:command" },
            match &c.body {
                BodySpec::None => "body:none",
                BodySpec::Str(_) => "body:string",
                BodySpec::Bytes(_) => "body:bytes",
                BodySpec::Json(_) => "body:json",
                BodySpec::Form(_) => "body:form",
                BodySpec::Reader { fail_after: Some(_), bytes, .. } if !bytes.is_empty() => "body:reader-that-fails",
                BodySpec::Reader { .. } => "body:reader",
                BodySpec::Typed { .. } => "body:typed-json",
            },
            if c.generic { "via:generic-body-and-request" } else { "via:dedicated-methods" },
            if c.query.is_some() { "query:struct" } else { "query:none" },
        ];
        match judge(c) {
            Ok(()) => {
                stats.case(c, nt, &labels);
                if nt && stats.wants_sample() {
                    stats.sample(|| serde_json::to_value(c).unwrap());
                }
                Ok(())
            }
            Err((sig, why)) => {
                if sig == "body-of-unknown-length-lost" && vkit::is_known(&known, &sig) {
                    stats.case(c, nt, &labels);
                    stats.excluded_known(&sig);
                    Ok(())
                } else {
                    Err(format!("[{sig}] {why}"))
                }
            }
        }
    };
    match mode {
        Mode::Replay(path) => {
            let res = vkit::read_replay(&path).and_then(|v| serde_json::from_value::<Case>(v).map_err(|e| e.to_string())).and_then(|c| check(&c));
            vkit::finish_replay(prop, &path, res)
        }
        Mode::Run(tier) => {
            let started = std::time::Instant::now();
            for k in &known {
                if let Some(c) = reproducer(&k.sig) {
                    if matches!(judge(&c), Err((s, _)) if s == k.sig) {
                        vkit::print_known_finding(k);
                    }
                }
            }
            let mut replayed = 0;
            for f in vkit::replay_files(prop) {
                replayed += 1;
                if let Err(why) = vkit::read_replay(&f).and_then(|v| serde_json::from_value::<Case>(v).map_err(|e| e.to_string())).and_then(|c| check(&c)) {
                    println!("why: {why}");
                    println!("VIOLATION property={prop} replay={}", f.display());
                    std::process::exit(1);
                }
            }
            let outcome = vkit::run_prop(prop, vkit::workers_for(tier), tier.pick(20_000, 400_000), strategy, check);
            let outcome = match outcome {
                Outcome::Held if stats.distinct_nontrivial() < 2 => Outcome::Inconclusive("generator produced no non-trivial case".into()),
                o => o,
            };
            vkit::finish(
                Report {
                    prop,
                    tier,
                    rule: "request descriptions: 9 methods; URLs built from components (scheme, ASCII/IDN/IP/userinfo hosts, default and explicit ports, path segments with unicode, percent-escapes and dot segments, queries, fragments); 0-4 (one case in 15: 30-69) header replacements with 1-2 (one in 7: 3-6) values each over repeated and mixed-case names; body none/string/bytes (up to 9 kB)/JSON value/typed JSON struct (unordered fields, f32, nested, renamed)/form/reader with known or unknown length, given through the dedicated body_* methods or through the generic body(); each method's own constructor or request(method, url); typed content type before or after the body; optional query struct; command API and capability API; non-trivial = >= 2 distinct header names with a multi-valued one, a body, and non-ASCII in URL or body; distinct = distinct case",
                    assumptions: vec![
                        "URLs are valid and header values ASCII (documented preconditions of the builders)".into(),
                        "expected URL = WHATWG serialisation by the url crate (the documented delegate); query pairs are compared after decoding".into(),
                        "a content type given through the typed setter or derived from the body kind is compared as a mime (essence + parameters); one given through header() literally".into(),
                    ],
                    started,
                    replayed,
                },
                &stats,
                outcome,
            )
        }
    }
}
