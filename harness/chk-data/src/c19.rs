//! C19 — time values convert exactly or are rejected explicitly.
//!
//! Oracle: exact integer arithmetic (i128/u128). Every conversion must either return the
//! mathematically exact value or reject (an `Err`, or a panic — the constructors document
//! panics); a value that differs, wraps, truncates or is normalised is a violation.

use chrono::{DateTime, TimeDelta, Utc};
use crux_time::{Duration, Instant};
use proptest::prelude::*;
use serde::{Deserialize, Serialize};
use std::time::{Duration as StdDuration, SystemTime, UNIX_EPOCH};
use vkit::{panics::catch, Mode, Outcome, Report, Stats, Tier};

const NPS: u128 = 1_000_000_000;

#[derive(Debug, Clone, PartialEq, Eq, Hash, Serialize, Deserialize)]
pub enum Case {
    /// `Duration::from(std::time::Duration::new(secs, nanos))`
    StdToDuration { secs: u64, nanos: u32 },
    /// `std::time::Duration::from(Duration::new(nanos))`
    DurationToStd { nanos: u64 },
    FromMillis { millis: u64 },
    FromSecs { secs: u64 },
    InstantNew { secs: u64, nanos: u32 },
    /// `SystemTime::from(instant)`; the instant comes off the wire (serde), so `nanos` is unconstrained
    InstantToSystemTime { secs: u64, nanos: u32 },
    /// `Instant::from(UNIX_EPOCH + (secs, nanos))`
    SystemTimeToInstant { secs: u64, nanos: u32 },
    /// `Duration::try_from(TimeDelta)`; the delta is `secs` seconds plus `nanos` nanoseconds
    DeltaToDuration { secs: i64, nanos: u32 },
    /// `TimeDelta::try_from(Duration::new(nanos))`
    DurationToDelta { nanos: u64 },
    /// `DateTime::<Utc>::try_from(instant)`
    InstantToDateTime { secs: u64, nanos: u32 },
    /// `Instant::try_from(DateTime::from_timestamp(secs, nanos))`, nanos up to 2e9-1 (leap second representation)
    DateTimeToInstant { secs: i64, nanos: u32 },
}

fn wire_instant(secs: u64, nanos: u32) -> Instant {
    serde_json::from_value(serde_json::json!({ "seconds": secs, "nanos": nanos })).expect("Instant deserializes from its wire form")
}
fn instant_parts(i: &Instant) -> (u64, u32) {
    let v = serde_json::to_value(i).unwrap();
    (v["seconds"].as_u64().unwrap(), v["nanos"].as_u64().unwrap() as u32)
}
fn duration_nanos(d: &Duration) -> u64 {
    serde_json::to_value(d).unwrap()["nanos"].as_u64().unwrap()
}

#[derive(Debug, PartialEq)]
pub enum Verdict {
    Exact,
    Rejected,
    /// (signature, explanation)
    Wrong(&'static str, String),
    /// the input itself is outside the domain (cannot be constructed)
    Skip,
}

pub fn judge(c: &Case) -> Verdict {
    use Verdict::*;
    match *c {
        Case::StdToDuration { secs, nanos } => {
            if nanos as u128 >= NPS {
                return Skip;
            }
            let std = StdDuration::new(secs, nanos);
            let want = secs as u128 * NPS + nanos as u128;
            match catch(|| duration_nanos(&Duration::from(std))) {
                Err(_) => Rejected,
                Ok(got) if got as u128 == want => Exact,
                Ok(got) => Wrong("std-duration-truncated", format!("Duration::from({std:?}) has {got} ns, exact value is {want} ns")),
            }
        }
        Case::DurationToStd { nanos } => match catch(|| StdDuration::from(Duration::new(nanos)).as_nanos()) {
            Err(_) => Rejected,
            Ok(got) if got == nanos as u128 => Exact,
            Ok(got) => Wrong("duration-to-std", format!("std Duration has {got} ns, exact value is {nanos} ns")),
        },
        Case::FromMillis { millis } => {
            let want = millis as u128 * 1_000_000;
            match catch(|| duration_nanos(&Duration::from_millis(millis))) {
                Err(_) if want > u64::MAX as u128 => Rejected,
                Err(m) => Wrong("from-millis-rejects-representable", format!("from_millis({millis}) rejected although representable: {m}")),
                Ok(got) if got as u128 == want => Exact,
                Ok(got) => Wrong("from-millis", format!("from_millis({millis}) = {got} ns, exact {want}")),
            }
        }
        Case::FromSecs { secs } => {
            let want = secs as u128 * NPS;
            match catch(|| duration_nanos(&Duration::from_secs(secs))) {
                Err(_) if want > u64::MAX as u128 => Rejected,
                Err(m) => Wrong("from-secs-rejects-representable", format!("from_secs({secs}) rejected although representable: {m}")),
                Ok(got) if got as u128 == want => Exact,
                Ok(got) => Wrong("from-secs", format!("from_secs({secs}) = {got} ns, exact {want}")),
            }
        }
        Case::InstantNew { secs, nanos } => match catch(|| instant_parts(&Instant::new(secs, nanos))) {
            Err(_) if nanos as u128 >= NPS => Rejected,
            Err(m) => Wrong("instant-new-rejects-valid", format!("Instant::new({secs},{nanos}) rejected: {m}")),
            Ok(got) if got == (secs, nanos) && (nanos as u128) < NPS => Exact,
            Ok(got) => Wrong("instant-new", format!("Instant::new({secs},{nanos}) = {got:?}")),
        },
        Case::InstantToSystemTime { secs, nanos } => {
            let i = wire_instant(secs, nanos);
            match catch(|| {
                let st: SystemTime = i.into();
                st.duration_since(UNIX_EPOCH).map(|d| (d.as_secs(), d.subsec_nanos()))
            }) {
                Err(_) => Rejected,
                Ok(Err(_)) => Wrong("instant-to-systemtime-before-epoch", format!("Instant({secs},{nanos}) became a time before the epoch")),
                Ok(Ok(got)) if got == (secs, nanos) => Exact,
                Ok(Ok(got)) if nanos as u128 >= NPS => Wrong("instant-nanos-normalised", format!("Instant{{seconds:{secs}, nanos:{nanos}}} has an invalid sub-second part but converts to {got:?}")),
                Ok(Ok(got)) => Wrong("instant-to-systemtime", format!("Instant({secs},{nanos}) -> {got:?}")),
            }
        }
        Case::SystemTimeToInstant { secs, nanos } => {
            if nanos as u128 >= NPS {
                return Skip;
            }
            let Some(st) = UNIX_EPOCH.checked_add(StdDuration::new(secs, nanos)) else { return Skip };
            match catch(|| instant_parts(&Instant::from(st))) {
                Err(_) => Rejected,
                Ok(got) if got == (secs, nanos) => Exact,
                Ok(got) => Wrong("systemtime-to-instant", format!("epoch+({secs},{nanos}) -> {got:?}")),
            }
        }
        Case::DeltaToDuration { secs, nanos } => {
            if nanos as u128 >= NPS {
                return Skip;
            }
            let Some(td) = TimeDelta::new(secs, nanos) else { return Skip };
            let want: i128 = secs as i128 * NPS as i128 + nanos as i128;
            match catch(|| Duration::try_from(td).map(|d| duration_nanos(&d))) {
                Err(_) | Ok(Err(_)) if want < 0 || want > u64::MAX as i128 => Rejected,
                // chrono cannot hand out more than i64::MAX nanoseconds; rejecting those is explicit too
                Err(_) | Ok(Err(_)) if want > i64::MAX as i128 => Rejected,
                Err(m) => Wrong("delta-rejects-representable", format!("TimeDelta of {want} ns rejected by panic: {m}")),
                Ok(Err(e)) => Wrong("delta-rejects-representable", format!("TimeDelta of {want} ns rejected: {e:?}")),
                Ok(Ok(got)) if got as i128 == want => Exact,
                Ok(Ok(got)) if want < 0 => Wrong("negative-timedelta-wrapped", format!("TimeDelta of {want} ns became a Duration of {got} ns")),
                Ok(Ok(got)) => Wrong("delta-to-duration", format!("TimeDelta of {want} ns became {got} ns")),
            }
        }
        Case::DurationToDelta { nanos } => match catch(|| TimeDelta::try_from(Duration::new(nanos)).map(|t| t.num_nanoseconds())) {
            Err(_) | Ok(Err(_)) if nanos > i64::MAX as u64 => Rejected,
            Err(m) => Wrong("duration-to-delta-rejects", format!("{nanos} ns rejected by panic: {m}")),
            Ok(Err(e)) => Wrong("duration-to-delta-rejects", format!("{nanos} ns rejected: {e:?}")),
            Ok(Ok(Some(got))) if got as i128 == nanos as i128 => Exact,
            Ok(Ok(got)) => Wrong("duration-to-delta", format!("{nanos} ns became {got:?}")),
        },
        Case::InstantToDateTime { secs, nanos } => {
            let i = wire_instant(secs, nanos);
            match catch(|| DateTime::<Utc>::try_from(i).map(|d| (d.timestamp(), d.timestamp_subsec_nanos()))) {
                Err(_) | Ok(Err(_)) => {
                    // representable iff valid nanos and inside chrono's range
                    let representable = (nanos as u128) < NPS && i64::try_from(secs).ok().and_then(|s| DateTime::<Utc>::from_timestamp(s, nanos)).is_some();
                    if representable {
                        Wrong("instant-to-datetime-rejects", format!("Instant({secs},{nanos}) is representable but was rejected"))
                    } else {
                        Rejected
                    }
                }
                Ok(Ok(got)) if (nanos as u128) < NPS && got.0 as i128 == secs as i128 && got.1 == nanos => Exact,
                Ok(Ok(got)) if nanos as u128 >= NPS => Wrong("instant-leap-accepted", format!("Instant{{seconds:{secs}, nanos:{nanos}}} has an invalid sub-second part but converts to a DateTime {got:?}")),
                Ok(Ok(got)) => Wrong("instant-to-datetime", format!("Instant({secs},{nanos}) -> {got:?}")),
            }
        }
        Case::DateTimeToInstant { secs, nanos } => {
            let Some(dt) = DateTime::<Utc>::from_timestamp(secs, nanos) else { return Skip };
            match catch(|| Instant::try_from(dt).map(|i| instant_parts(&i))) {
                Err(_) | Ok(Err(_)) if secs < 0 || nanos as u128 >= NPS => Rejected,
                Err(m) => Wrong("datetime-rejects-representable", format!("{dt:?} rejected by panic: {m}")),
                Ok(Err(e)) => Wrong("datetime-rejects-representable", format!("{dt:?} rejected: {e:?}")),
                Ok(Ok(got)) if (nanos as u128) < NPS && secs >= 0 && got == (secs as u64, nanos) => Exact,
                Ok(Ok(got)) if got.1 as u128 >= NPS => Wrong("datetime-leap-invalid-nanos", format!("{dt:?} (leap-second representation) became an Instant with nanos {} >= 1e9", got.1)),
                Ok(Ok(got)) => Wrong("datetime-to-instant", format!("{dt:?} -> {got:?}")),
            }
        }
    }
}

// ------------------------------------------------------------------ generators (boundary weighted)

fn edge_u64() -> impl Strategy<Value = u64> {
    let edges = vec![
        0u64,
        1,
        999_999_999,
        1_000_000_000,
        i64::MAX as u64 / 1_000_000_000,
        u64::MAX / 1_000_000_000,
        u64::MAX / 1_000_000_000 + 1,
        u64::MAX / 1_000_000,
        u64::MAX / 1_000_000 + 1,
        8_210_266_876_799,
        8_210_266_876_800,
        i64::MAX as u64,
        i64::MAX as u64 + 1,
        u64::MAX,
    ];
    prop_oneof![
        3 => proptest::sample::select(edges.clone()).prop_flat_map(|e| (Just(e), 0u64..3, any::<bool>())).prop_map(|(e, d, up)| if up { e.saturating_add(d) } else { e.saturating_sub(d) }),
        2 => any::<u64>(),
        1 => 0u64..4_000_000_000,
    ]
}
fn edge_nanos(allow_invalid: bool) -> BoxedStrategy<u32> {
    if allow_invalid {
        prop_oneof![3 => 0u32..1_000_000_000, 1 => Just(999_999_999u32), 2 => 1_000_000_000u32..2_000_000_000, 1 => proptest::sample::select(vec![1_000_000_000u32, 1_999_999_999, 2_000_000_000, u32::MAX])].boxed()
    } else {
        prop_oneof![4 => 0u32..1_000_000_000, 1 => Just(999_999_999u32), 1 => Just(0u32)].boxed()
    }
}
fn edge_i64() -> impl Strategy<Value = i64> {
    let edges = vec![0i64, -1, 1, i64::MIN / 1000, i64::MAX / 1000, -9_223_372_036, 9_223_372_036, -9_223_372_037, 9_223_372_037, -8_334_601_228_800, 8_210_266_876_799, 8_210_266_876_800, 59, 60, 1_483_228_799];
    prop_oneof![
        3 => proptest::sample::select(edges).prop_flat_map(|e| (Just(e), -2i64..3)).prop_map(|(e, d)| e.saturating_add(d)),
        1 => any::<i64>(),
        2 => -4_000_000_000i64..4_000_000_000,
    ]
}

pub fn strategy() -> BoxedStrategy<Case> {
    prop_oneof![
        (edge_u64(), edge_nanos(false)).prop_map(|(secs, nanos)| Case::StdToDuration { secs, nanos }),
        edge_u64().prop_map(|nanos| Case::DurationToStd { nanos }),
        edge_u64().prop_map(|millis| Case::FromMillis { millis }),
        edge_u64().prop_map(|secs| Case::FromSecs { secs }),
        (edge_u64(), edge_nanos(true)).prop_map(|(secs, nanos)| Case::InstantNew { secs, nanos }),
        (edge_u64(), edge_nanos(true)).prop_map(|(secs, nanos)| Case::InstantToSystemTime { secs, nanos }),
        (edge_u64(), edge_nanos(false)).prop_map(|(secs, nanos)| Case::SystemTimeToInstant { secs, nanos }),
        (edge_i64(), edge_nanos(false)).prop_map(|(secs, nanos)| Case::DeltaToDuration { secs, nanos }),
        edge_u64().prop_map(|nanos| Case::DurationToDelta { nanos }),
        (edge_u64(), edge_nanos(true)).prop_map(|(secs, nanos)| Case::InstantToDateTime { secs, nanos }),
        (edge_i64(), edge_nanos(true)).prop_map(|(secs, nanos)| Case::DateTimeToInstant { secs, nanos }),
    ]
    .boxed()
}

/// within 2 of a boundary of one of the representations, or an invalid sub-second part
fn nontrivial(c: &Case) -> bool {
    let near = |x: u128| {
        [0u128, NPS, u64::MAX as u128 / NPS, u64::MAX as u128 / 1_000_000, 8_210_266_876_799, i64::MAX as u128, u64::MAX as u128].iter().any(|b| x.abs_diff(*b) <= 2)
    };
    match *c {
        Case::StdToDuration { secs, nanos } | Case::SystemTimeToInstant { secs, nanos } | Case::InstantNew { secs, nanos } | Case::InstantToSystemTime { secs, nanos } | Case::InstantToDateTime { secs, nanos } => {
            near(secs as u128) || nanos as u128 >= NPS - 1
        }
        Case::DurationToStd { nanos } | Case::DurationToDelta { nanos } => near(nanos as u128),
        Case::FromMillis { millis } => near(millis as u128),
        Case::FromSecs { secs } => near(secs as u128),
        Case::DeltaToDuration { secs, nanos } | Case::DateTimeToInstant { secs, nanos } => secs <= 0 || near(secs.unsigned_abs() as u128) || nanos as u128 >= NPS - 1,
    }
}

fn kind(c: &Case) -> &'static str {
    match c {
        Case::StdToDuration { .. } => "std->Duration",
        Case::DurationToStd { .. } => "Duration->std",
        Case::FromMillis { .. } => "from_millis",
        Case::FromSecs { .. } => "from_secs",
        Case::InstantNew { .. } => "Instant::new",
        Case::InstantToSystemTime { .. } => "Instant->SystemTime",
        Case::SystemTimeToInstant { .. } => "SystemTime->Instant",
        Case::DeltaToDuration { .. } => "TimeDelta->Duration",
        Case::DurationToDelta { .. } => "Duration->TimeDelta",
        Case::InstantToDateTime { .. } => "Instant->DateTime",
        Case::DateTimeToInstant { .. } => "DateTime->Instant",
    }
}

/// minimal reproducers of the signatures this check knows how to name
fn reproducer(sig: &str) -> Option<Case> {
    Some(match sig {
        "std-duration-truncated" => Case::StdToDuration { secs: u64::MAX / 1_000_000_000 + 1, nanos: 0 },
        "negative-timedelta-wrapped" => Case::DeltaToDuration { secs: -1, nanos: 999_999_999 },
        "instant-nanos-normalised" => Case::InstantToSystemTime { secs: 1, nanos: 1_500_000_000 },
        "instant-leap-accepted" => Case::InstantToDateTime { secs: 59, nanos: 1_500_000_000 },
        "datetime-leap-invalid-nanos" => Case::DateTimeToInstant { secs: 1_483_228_799, nanos: 1_500_000_000 },
        _ => return None,
    })
}

pub fn check_case(c: &Case, stats: &Stats, known: &[vkit::Known]) -> Result<(), String> {
    let v = judge(c);
    match v {
        Verdict::Skip => Ok(()),
        Verdict::Exact | Verdict::Rejected => {
            let nt = nontrivial(c);
            stats.case(c, nt, &[kind(c), if v == Verdict::Exact { "exact" } else { "rejected" }]);
            if nt && stats.wants_sample() {
                stats.sample(|| serde_json::json!({ "case": c, "verdict": format!("{v:?}") }));
            }
            Ok(())
        }
        Verdict::Wrong(sig, why) => {
            if vkit::is_known(known, sig) {
                stats.case(c, nontrivial(c), &[kind(c), "excluded-known"]);
                stats.excluded_known(sig);
                Ok(())
            } else {
                Err(format!("[{sig}] {why}"))
            }
        }
    }
}

pub fn main(mode: Mode) {
    let prop = "C19";
    let known = vkit::known_findings(prop);
    match mode {
        Mode::Replay(path) => {
            let res = vkit::read_replay(&path).and_then(|v| serde_json::from_value::<Case>(v).map_err(|e| e.to_string())).and_then(|c| check_case(&c, &Stats::new(), &known));
            vkit::finish_replay(prop, &path, res)
        }
        Mode::Run(tier) => {
            let started = std::time::Instant::now();
            vkit::watchdog("C19", tier.pick(300, 1800));
            let stats = Stats::new();
            // known findings: print the ones that still reproduce
            for k in &known {
                if let Some(c) = reproducer(&k.sig) {
                    if matches!(judge(&c), Verdict::Wrong(s, _) if s == k.sig) {
                        vkit::print_known_finding(k);
                    }
                }
            }
            // regression inputs first
            let mut replayed = 0;
            for f in vkit::replay_files(prop) {
                replayed += 1;
                if let Err(why) = vkit::read_replay(&f).and_then(|v| serde_json::from_value::<Case>(v).map_err(|e| e.to_string())).and_then(|c| check_case(&c, &stats, &known)) {
                    println!("why: {why}");
                    println!("VIOLATION property={prop} replay={}", f.display());
                    std::process::exit(1);
                }
            }
            let workers = vkit::workers_for(tier);
            let outcome = vkit::run_prop(prop, workers, tier.pick(40_000, 2_000_000), strategy, |c: &Case| check_case(c, &stats, &known));
            let outcome = match outcome {
                Outcome::Held if stats.distinct_nontrivial() < 2 => Outcome::Inconclusive("generator produced no non-trivial case".into()),
                o => o,
            };
            vkit::finish(
                Report {
                    prop,
                    tier,
                    rule: "cases are conversions drawn from boundary-weighted generators (std Duration, SystemTime, wire Instant incl. invalid nanos, chrono TimeDelta/DateTime incl. negative, extreme and leap-second values); a case is non-trivial when an operand lies within 2 of a representation boundary (0, 1e9, u64::MAX/1e9, u64::MAX/1e6, chrono's last second, i64::MAX, u64::MAX), is negative, or has a sub-second part >= 999_999_999; distinct = distinct (conversion, operands)",
                    assumptions: vec![
                        "a panic counts as an explicit rejection (the constructors document panics)".into(),
                        "Instant values with nanos >= 1e9 are reachable only through deserialization; they are built from the JSON wire form".into(),
                        "chrono 0.4 and std are the trusted representations; exact values are computed in i128/u128".into(),
                    ],
                    started,
                    replayed,
                },
                &stats,
                outcome,
            )
        }
    }
}
