//! C12 — malformed input across the boundary fails cleanly (see sim::fault).
use proptest::prelude::*;
use sim::fault::{run_fault_case, Fault, FaultCase, Mutation, Target};
use sim::gen::{universe, GenCfg};
use vkit::{Mode, Outcome, Report, Stats};

fn strategy() -> BoxedStrategy<FaultCase> {
    let bytes = |max: usize| prop::collection::vec(any::<u8>(), 0..max);
    let mutation = prop_oneof![
        1 => Just(Mutation::Intact),
        3 => prop_oneof![bytes(8), bytes(64), bytes(300)].prop_map(Mutation::Random),
        3 => any::<u16>().prop_map(Mutation::Truncate),
        2 => bytes(12).prop_map(Mutation::Extend),
        4 => any::<u16>().prop_map(Mutation::FlipBit),
        3 => (any::<u16>(), prop_oneof![Just(0u8), Just(0xff), Just(0x80), any::<u8>()]).prop_map(|(p, v)| Mutation::SetByte(p, v)),
        2 => any::<u16>().prop_map(Mutation::HugeLength),
    ];
    let fault = (0u8..24, prop_oneof![1 => Just(Target::Event), 2 => any::<u16>().prop_map(Target::Response)], mutation).prop_map(|(at, target, mutation)| Fault { at, target, mutation });
    let cfg = GenCfg { abortable: false, task_aborts: false, max_acts: 24, ..GenCfg::standard() };
    (universe(cfg), any::<bool>(), prop::collection::vec(fault, 1..8)).prop_map(|(universe, json, faults)| FaultCase { universe, json, faults }).boxed()
}

pub fn main(mode: Mode) {
    let prop = "C12";
    let stats = Stats::new();
    let max_alloc = std::sync::atomic::AtomicU64::new(0);
    let check = |c: &FaultCase| -> Result<(), String> {
        let info = run_fault_case(c)?;
        max_alloc.fetch_max(info.max_alloc, std::sync::atomic::Ordering::Relaxed);
        let mut labels = vec![if c.json { "bridge:json" } else { "bridge:bincode" }];
        if info.rejected > 0 {
            labels.push("input:rejected");
        }
        if info.accepted > 0 {
            labels.push("input:accepted");
        }
        if info.mutated_valid > 0 {
            labels.push("input:mutated-valid-encoding");
        }
        stats.case(c, info.deep, &labels);
        if info.deep && stats.wants_sample() {
            stats.sample(|| serde_json::to_value(c).unwrap());
        }
        Ok(())
    };
    match mode {
        Mode::Replay(path) => {
            let res = vkit::read_replay(&path).and_then(|v| serde_json::from_value::<FaultCase>(v).map_err(|e| e.to_string())).and_then(|c| check(&c));
            vkit::finish_replay(prop, &path, res)
        }
        Mode::Run(tier) => {
            let started = std::time::Instant::now();
            vkit::watchdog("C12", tier.pick(600, 3600));
            let mut replayed = 0;
            for f in vkit::replay_files(prop) {
                replayed += 1;
                if let Err(why) = vkit::read_replay(&f).and_then(|v| serde_json::from_value::<FaultCase>(v).map_err(|e| e.to_string())).and_then(|c| check(&c)) {
                    println!("why: {why}");
                    println!("VIOLATION property={prop} replay={}", f.display());
                    std::process::exit(1);
                }
            }
            let outcome = vkit::run_prop(prop, vkit::workers_for(tier), tier.pick(2_000, 120_000), strategy, check);
            stats.set_extra("max_bytes_allocated_while_handling_one_input", serde_json::json!(max_alloc.load(std::sync::atomic::Ordering::Relaxed)));
            let outcome = match outcome {
                Outcome::Held if stats.distinct_nontrivial() < 2 => Outcome::Inconclusive("generator produced no non-trivial case".into()),
                o => o,
            };
            vkit::finish(
                Report {
                    prop,
                    tier,
                    rule: "histories of <= 24 shell actions on the bincode or the JSON bridge with 1-7 malformed inputs injected at generated points, as an event or as the response to an outstanding request: random bytes (<= 300), or a truncated / extended / bit-flipped / byte-overwritten / length-corrupted variant of a valid encoding; each call runs under catch_unwind with a counting allocator (bound 16 MiB + 64 x input length); a typed twin core that never sees a rejected input (and loses the one request a rejected one-shot response was addressed to) must show the same effects, resolution results and view for the rest of the history; non-trivial = a mutated valid encoding arrived with >= 2 requests outstanding and >= 3 actions followed; distinct = distinct case",
                    assumptions: vec![
                        "responses are addressed to outstanding ids (the documented precondition); unknown ids are decided by C02".into(),
                        "inputs are capped at 600 bytes because the test app's event type is recursive (bincode has no depth limit; not a crux property)".into(),
                        "hangs are caught by the watchdog and reported as inconclusive (exit 2)".into(),
                    ],
                    started,
                    replayed,
                },
                &stats,
                outcome,
            )
        }
    }
}
