//! C12 — malformed input across the boundary fails cleanly (see sim::fault).
use proptest::prelude::*;
use sim::fault::{run_fault_case, Fault, FaultCase, Mutation, Target};
use sim::gen::{universe, GenCfg};
use vkit::{Mode, Outcome, Report, Stats};

fn strategy() -> BoxedStrategy<FaultCase> {
    let bytes = |max: usize| prop::collection::vec(any::<u8>(), 0..max);
    let mutation = prop_oneof![
        1 => Just(Mutation::Intact),
        3 => prop_oneof![bytes(8), bytes(64), bytes(300)].prop_map(Mutation::Random),
        3 => any::<u16>().prop_map(Mutation::Truncate),
        2 => bytes(12).prop_map(Mutation::Extend),
        4 => any::<u16>().prop_map(Mutation::FlipBit),
        3 => (any::<u16>(), prop_oneof![Just(0u8), Just(0xff), Just(0x80), any::<u8>()]).prop_map(|(p, v)| Mutation::SetByte(p, v)),
        3 => (any::<u16>(), 0u8..5).prop_map(|(p, k)| Mutation::HugeLength(p, k)),
        2 => (any::<u8>(), any::<u16>()).prop_map(|(k, n)| Mutation::WrongShape(k, n)),
    ];
    let fault = (0u8..24, prop_oneof![2 => Just(Target::Event), 4 => any::<u16>().prop_map(Target::Response), 1 => any::<u16>().prop_map(Target::Stray)], mutation).prop_map(|(at, target, mutation)| Fault { at, target, mutation });
    let cfg = GenCfg { abortable: false, task_aborts: false, mixed: 0, max_acts: 24, scale: false, ..GenCfg::standard() };
    (universe(cfg), any::<bool>(), prop::collection::vec(fault, 1..8)).prop_map(|(universe, json, faults)| FaultCase { universe, json, faults }).boxed()
}

/// If the core aborts the process while handling an input (an allocation the size of a corrupted
/// length field fails), the case in flight is written out and reported from the SIGABRT handler.
mod inflight {
    use std::sync::atomic::{AtomicI32, AtomicPtr, AtomicUsize, Ordering};
    const SLOTS: usize = 64;
    struct Slot {
        tid: AtomicI32,
        ptr: AtomicPtr<u8>,
        len: AtomicUsize,
    }
    #[allow(clippy::declare_interior_mutable_const)]
    const EMPTY: Slot = Slot { tid: AtomicI32::new(0), ptr: AtomicPtr::new(std::ptr::null_mut()), len: AtomicUsize::new(0) };
    static TABLE: [Slot; SLOTS] = [EMPTY; SLOTS];
    static NEXT: AtomicUsize = AtomicUsize::new(0);
    static PATH: AtomicPtr<libc::c_char> = AtomicPtr::new(std::ptr::null_mut());
    thread_local! { static MINE: std::cell::RefCell<(Option<usize>, Vec<u8>)> = const { std::cell::RefCell::new((None, Vec::new())) }; }

    fn tid() -> i32 {
        unsafe { libc::syscall(libc::SYS_gettid) as i32 }
    }

    /// remember the case this thread is about to run (as the text of its replay file)
    pub fn set(case_json: Vec<u8>) {
        MINE.with(|m| {
            let mut m = m.borrow_mut();
            let slot = *m.0.get_or_insert_with(|| NEXT.fetch_add(1, Ordering::SeqCst) % SLOTS);
            TABLE[slot].len.store(0, Ordering::SeqCst);
            m.1 = case_json;
            TABLE[slot].tid.store(tid(), Ordering::SeqCst);
            TABLE[slot].ptr.store(m.1.as_mut_ptr(), Ordering::SeqCst);
            TABLE[slot].len.store(m.1.len(), Ordering::SeqCst);
        });
    }

    extern "C" fn on_abort(_: libc::c_int) {
        // only async-signal-safe calls from here on
        unsafe {
            let me = tid();
            let path = PATH.load(Ordering::SeqCst);
            for s in TABLE.iter() {
                if s.tid.load(Ordering::SeqCst) == me && s.len.load(Ordering::SeqCst) > 0 && !path.is_null() {
                    let fd = libc::open(path, libc::O_WRONLY | libc::O_CREAT | libc::O_TRUNC, 0o644);
                    if fd >= 0 {
                        let head = b"{\"property\":\"C12\",\"why\":\"the process aborted while the bridge was handling a malformed input (an allocation of the size a corrupted length field claims)\",\"case\":";
                        libc::write(fd, head.as_ptr().cast(), head.len());
                        libc::write(fd, s.ptr.load(Ordering::SeqCst).cast(), s.len.load(Ordering::SeqCst));
                        libc::write(fd, b"}\n".as_ptr().cast(), 2);
                        libc::close(fd);
                    }
                    let a = b"why: [abort] the process aborted while the bridge was handling a malformed input (unbounded allocation)\nVIOLATION property=C12 replay=";
                    libc::write(1, a.as_ptr().cast(), a.len());
                    libc::write(1, path.cast(), libc::strlen(path));
                    libc::write(1, b"\n".as_ptr().cast(), 1);
                    libc::_exit(1);
                }
            }
            // not one of the case-running threads: default behaviour
            libc::signal(libc::SIGABRT, libc::SIG_DFL);
            libc::abort();
        }
    }

    pub fn install() {
        let dir = vkit::verif_root().join("out").join("violations");
        let _ = std::fs::create_dir_all(&dir);
        let path = dir.join(format!("C12-abort-{}.json", std::process::id()));
        if let Ok(c) = std::ffi::CString::new(path.to_string_lossy().as_bytes()) {
            PATH.store(c.into_raw(), Ordering::SeqCst);
        }
        unsafe {
            libc::signal(libc::SIGABRT, on_abort as extern "C" fn(libc::c_int) as libc::sighandler_t);
        }
    }
}

pub fn main(mode: Mode) {
    let prop = "C12";
    let stats = Stats::new();
    inflight::install();
    let max_alloc = std::sync::atomic::AtomicU64::new(0);
    let check = |c: &FaultCase| -> Result<(), String> {
        inflight::set(serde_json::to_vec(c).unwrap_or_default());
        let info = run_fault_case(c)?;
        max_alloc.fetch_max(info.max_alloc, std::sync::atomic::Ordering::Relaxed);
        let mut labels = vec![if c.json { "bridge:json" } else { "bridge:bincode" }];
        if info.rejected > 0 {
            labels.push("input:rejected");
        }
        if info.accepted > 0 {
            labels.push("input:accepted");
        }
        if info.mutated_valid > 0 {
            labels.push("input:mutated-valid-encoding");
        }
        if info.stray > 0 {
            labels.push("input:response-to-an-id-without-outstanding-request");
        }
        stats.case(c, info.deep, &labels);
        if info.deep && stats.wants_sample() {
            stats.sample(|| serde_json::to_value(c).unwrap());
        }
        Ok(())
    };
    match mode {
        Mode::Replay(path) => {
            let res = vkit::read_replay(&path).and_then(|v| serde_json::from_value::<FaultCase>(v).map_err(|e| e.to_string())).and_then(|c| check(&c));
            vkit::finish_replay(prop, &path, res)
        }
        Mode::Run(tier) => {
            let started = std::time::Instant::now();
            vkit::watchdog("C12", tier.pick(600, 3600));
            let mut replayed = 0;
            for f in vkit::replay_files(prop) {
                replayed += 1;
                if let Err(why) = vkit::read_replay(&f).and_then(|v| serde_json::from_value::<FaultCase>(v).map_err(|e| e.to_string())).and_then(|c| check(&c)) {
                    println!("why: {why}");
                    println!("VIOLATION property={prop} replay={}", f.display());
                    std::process::exit(1);
                }
            }
            let outcome = vkit::run_prop(prop, vkit::workers_for(tier), tier.pick(8_000, 200_000), strategy, check);
            stats.set_extra("max_bytes_allocated_while_handling_one_input", serde_json::json!(max_alloc.load(std::sync::atomic::Ordering::Relaxed)));
            let outcome = match outcome {
                Outcome::Held if stats.distinct_nontrivial() < 2 => Outcome::Inconclusive("generator produced no non-trivial case".into()),
                o => o,
            };
            vkit::finish(
                Report {
                    prop,
                    tier,
                    rule: "histories of <= 24 shell actions on the bincode or the JSON bridge with 1-7 malformed inputs injected at generated points, as an event, as the response to an outstanding request, or as a response under an id that names no outstanding request (a notification, an answered one-shot, an id never handed out: must be rejected and change nothing): random bytes (<= 300), or a truncated / extended / bit-flipped / byte-overwritten / length-corrupted variant of a valid encoding; each bridge call that sees such an input runs under catch_unwind with a counting allocator (bound 16 MiB + 16 x what the typed twin allocates for the value the input denotes; a single allocation above 1 GiB is refused, and the resulting abort is reported as a violation with the input in flight); a typed twin core that never sees a rejected input (and loses the one request a rejected one-shot response was addressed to) must show the same effects, resolution results and view for the rest of the history; non-trivial = a mutated valid encoding arrived with >= 2 requests outstanding and >= 3 actions followed; distinct = distinct case",
                    assumptions: vec![
                        "responses are addressed to outstanding ids (the documented precondition); unknown ids are decided by C02".into(),
                        "inputs are capped at 600 bytes because the test app's event type is recursive (bincode has no depth limit; not a crux property)".into(),
                        "hangs are caught by the watchdog and reported as inconclusive (exit 2)".into(),
                    ],
                    started,
                    replayed,
                },
                &stats,
                outcome,
            )
        }
    }
}
