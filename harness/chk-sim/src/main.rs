//! Runtime properties decided by Engine A (see /verif/DESIGN.md §4 and §7). The campaigns' specification,
//! clause ownership and judgement live in the library (lib.rs) so that the coverage-guided driver shares them.
use chk_sim::{c08, c12, c13_timers, reproducer, Case, Judge};
use sim::shell::{run_case, CaseCfg};
use vkit::{Mode, Outcome, Report, Tier};

/// counts the bytes each thread allocates (C12: a malformed input must not cause unbounded allocation)
struct Counting;
thread_local! { static ALLOCATED: std::cell::Cell<u64> = const { std::cell::Cell::new(0) }; }
/// no single allocation of this size is ever legitimate here (inputs are a few hundred bytes,
/// payloads at most ~1 MB): refusing it turns "the core tries to allocate what a corrupted length
/// field says" into an allocation failure (abort -> C12's abort handler) instead of exhausting
/// the machine
const REFUSE_ABOVE: usize = 1 << 30;
unsafe impl std::alloc::GlobalAlloc for Counting {
    unsafe fn alloc(&self, l: std::alloc::Layout) -> *mut u8 {
        if l.size() > REFUSE_ABOVE {
            return std::ptr::null_mut();
        }
        let _ = ALLOCATED.try_with(|c| c.set(c.get() + l.size() as u64));
        std::alloc::System.alloc(l)
    }
    unsafe fn alloc_zeroed(&self, l: std::alloc::Layout) -> *mut u8 {
        if l.size() > REFUSE_ABOVE {
            return std::ptr::null_mut();
        }
        let _ = ALLOCATED.try_with(|c| c.set(c.get() + l.size() as u64));
        std::alloc::System.alloc_zeroed(l)
    }
    unsafe fn dealloc(&self, p: *mut u8, l: std::alloc::Layout) {
        std::alloc::System.dealloc(p, l)
    }
    unsafe fn realloc(&self, p: *mut u8, l: std::alloc::Layout, n: usize) -> *mut u8 {
        if n > REFUSE_ABOVE {
            return std::ptr::null_mut();
        }
        let _ = ALLOCATED.try_with(|c| c.set(c.get() + n.saturating_sub(l.size()) as u64));
        std::alloc::System.realloc(p, l, n)
    }
}
#[global_allocator]
static GLOBAL: Counting = Counting;
fn allocated_by_this_thread() -> u64 {
    ALLOCATED.with(|c| c.get())
}

fn main() {
    let (prop, mode) = vkit::parse_args();
    if prop == "C08" {
        c08::main(mode);
        return;
    }
    if prop == "C12" {
        sim::fault::ALLOC_PROBE.set(allocated_by_this_thread).ok();
        c12::main(mode);
        return;
    }
    let Some(judge) = Judge::new(&prop) else {
        eprintln!("chk-sim does not implement {prop}");
        std::process::exit(2)
    };
    let (sp, known, stats, driver_errors) = (&judge.sp, &judge.known, &judge.stats, &judge.driver_errors);
    let check = |c: &Case| judge.check(c);
    match mode {
        Mode::Replay(path) => {
            let v = vkit::read_replay(&path);
            if let Ok(Some(t)) = v.as_ref().map(|v| v.get("timers").cloned()) {
                let res = serde_json::from_value::<Vec<c13_timers::Cycle>>(t).map_err(|e| e.to_string()).and_then(|c| c13_timers::run(&c).map(|_| ()).map_err(|(s, w)| format!("[release] [{s}] {w}")));
                vkit::finish_replay(sp.prop, &path, res)
            }
            let res = v.and_then(|v| serde_json::from_value::<Case>(v).map_err(|e| e.to_string())).and_then(|c| check(&c));
            vkit::finish_replay(sp.prop, &path, res)
        }
        Mode::Run(tier) => {
            let started = std::time::Instant::now();
            // known findings of this property: print the line iff the reproducer still shows it
            for k in known {
                if let Some((host, universe, needle)) = reproducer(&k.sig) {
                    let strict = CaseCfg { host, tolerate_retaining: false, byte_late_resolves: false, release_checks: sp.prop == "C13", tolerate: vec![], tolerate_legacy_kept: false };
                    if matches!(run_case(&universe, &strict), Err(e) if e.msgs.iter().any(|w| w.contains(needle))) {
                        vkit::print_known_finding(k);
                    }
                }
            }
            let mut replayed = 0;
            for f in vkit::replay_files(sp.prop) {
                replayed += 1;
                let res = vkit::read_replay(&f).and_then(|v| match v.get("timers").cloned() {
                    Some(t) => serde_json::from_value::<Vec<c13_timers::Cycle>>(t).map_err(|e| e.to_string()).and_then(|c| c13_timers::run(&c).map(|_| ()).map_err(|(s, w)| format!("[release] [{s}] {w}"))),
                    None => serde_json::from_value::<Case>(v).map_err(|e| e.to_string()).and_then(|c| check(&c)),
                });
                if let Err(why) = res {
                    println!("why: {why}");
                    println!("VIOLATION property={} replay={}", sp.prop, f.display());
                    std::process::exit(1);
                }
            }
            if sp.prop == "C13" {
                // timer clause (one thread: it watches a process-wide set), see c13_timers.rs
                use proptest::prelude::*;
                let late_clear_known = vkit::is_known(known, "legacy-late-clear-leaks-timer-id");
                if let Some(k) = known.iter().find(|k| k.sig == "legacy-late-clear-leaks-timer-id") {
                    if matches!(c13_timers::run(&[c13_timers::Cycle::LegacyFireThenClear]), Err((s, _)) if s == k.sig) {
                        vkit::print_known_finding(k);
                    }
                }
                let all = [
                    c13_timers::Cycle::LegacyFire,
                    c13_timers::Cycle::LegacyClearThenFire,
                    c13_timers::Cycle::LegacyFireThenClear,
                    c13_timers::Cycle::LegacyStartAndClear,
                    c13_timers::Cycle::CmdFire,
                    c13_timers::Cycle::CmdClearAnswered,
                    c13_timers::Cycle::CmdFireThenClear,
                    c13_timers::Cycle::CmdDropHandleThenFire,
                    c13_timers::Cycle::CmdClearBeforeFirstPoll,
                    c13_timers::Cycle::LegacyClearThenDropCore,
                    c13_timers::Cycle::LegacyAsyncClearedUnawaited,
                    c13_timers::Cycle::LegacyClearObservedThenClearAgain,
                ];
                let timer_stats = &stats;
                let tcheck = |cycles: &Vec<c13_timers::Cycle>| -> Result<(), String> {
                    let mut cycles = cycles.clone();
                    if late_clear_known {
                        let before = cycles.len();
                        cycles.retain(|c| *c != c13_timers::Cycle::LegacyFireThenClear);
                        if cycles.len() != before {
                            timer_stats.excluded_known("legacy-late-clear-leaks-timer-id");
                        }
                    }
                    match c13_timers::run(&cycles) {
                        Ok(n) => {
                            timer_stats.case(&("timers", &cycles), n >= 20, &["timers:history", if n >= 100 { "timers:>=100-cycles" } else { "timers:<100-cycles" }]);
                            Ok(())
                        }
                        Err((sig, why)) => Err(format!("[release] [{sig}] {why}")),
                    }
                };
                let max_cycles = tier.pick(120usize, 600usize);
                let outcome = vkit::run_prop("C13-timers", 1, tier.pick(400, 6_000), move || prop::collection::vec(proptest::sample::select(all.to_vec()), 1..max_cycles), tcheck);
                if let Outcome::Violated(v) = outcome {
                    let path = vkit::write_replay(sp.prop, &serde_json::json!({ "timers": v.case }), &v.why);
                    println!("why: {}", v.why);
                    println!("VIOLATION property={} replay={}", sp.prop, path.display());
                    std::process::exit(1);
                }
            }
            // thorough tier: half of the cases use long schedules (some behaviour needs more than 30 shell actions)
            let long = std::env::var("VERIF_LONG").map_or(false, |v| v == "1");
            let mix_long = matches!(tier, Tier::Thorough) && sp.prop != "C13";
            let strategy = || judge.strategy(mix_long, long, false);
            let outcome = vkit::run_prop(sp.prop, vkit::workers_for(tier), tier.pick(sp.quick, sp.thorough), strategy, check);
            let outcome = match outcome {
                Outcome::Held if driver_errors.load(std::sync::atomic::Ordering::Relaxed) > 0 => Outcome::Inconclusive("the shell driver lost track of a request (harness error, see stderr)".into()),
                Outcome::Held if stats.distinct_nontrivial() < 2 => Outcome::Inconclusive("generator produced no non-trivial case".into()),
                o => o,
            };
            let foreign = stats.labels_with_prefix("foreign:");
            if !foreign.is_empty() {
                println!("note: cases that ended unjudged because a clause owned by another property failed: {foreign:?} (VERIF_DUMP_FOREIGN=<dir> saves them)");
            }
            vkit::finish(
                Report {
                    prop: sp.prop,
                    tier,
                    rule: sp.rule,
                    assumptions: vec![
                        "the reference runtime (sim::refrt) states the intended semantics; it shares the program interpreter, not the runtime, with the code under test".into(),
                        "harness profile: debug assertions off (Core::resolve debug_asserts that a resolution is accepted)".into(),
                        "each shell action delivers one value; drops and aborts are flushed by a no-op event".into(),
                    ],
                    started,
                    replayed,
                },
                &stats,
                outcome,
            )
        }
    }
}
