//! Runtime properties decided by Engine A (see /verif/DESIGN.md §4 and §7).
pub mod c08;
pub mod c12;
pub mod c13_timers;
use serde::{Deserialize, Serialize};
use sim::dsl::Universe;
use sim::gen::{universe, GenCfg};
use sim::shell::{cross_comparable, run_case, run_cross, CaseCfg, CaseInfo, HostKind};
use vkit::Stats;

#[derive(Debug, Clone, Serialize, Deserialize)]
pub struct Case {
    pub host: HostKind,
    pub universe: Universe,
    /// C05: instead of judging one host against the reference, run the universe in lock step on
    /// all hosts and compare their observations (no reference involved)
    #[serde(default)]
    pub cross: bool,
}

pub struct Spec {
    pub prop: &'static str,
    pub hosts: &'static [HostKind],
    pub gen: GenCfg,
    pub rule: &'static str,
    pub nontrivial: fn(&Universe, &CaseInfo) -> bool,
    pub quick: u32,
    pub thorough: u32,
}

pub fn uses(u: &Universe) -> std::collections::BTreeSet<&'static str> {
    let mut s = Default::default();
    u.programs.iter().for_each(|p| p.uses(&mut s));
    s
}

pub fn spec(prop: &str) -> Option<Spec> {
    use HostKind::*;
    Some(match prop {
        "C01" => Spec {
            prop: "C01",
            hosts: &[Core, Core, Legacy, BridgeBincode],
            gen: GenCfg::standard(),
            rule: "universes (1-2 programs, combinator depth <= 3, optional event->program link) x schedules (<= 30 shell actions: resolve, drop, late resolve, abort, start, no-op) on Core / legacy / bridge hosts; every call is judged by the trace invariants and by replaying its witness on the reference runtime; non-trivial = some call returned >= 2 effects, or an applied event started a follow-up program; distinct = distinct (host, universe)",
            nontrivial: |_, i| i.max_effects_in_call >= 2 || i.follow_ups > 0,
            quick: 3_000,
            thorough: 30_000,
        },
        "C02" => Spec {
            prop: "C02",
            hosts: &[Direct, Core, Legacy, BridgeBincode, BridgeJson],
            gen: GenCfg { again_weight: 6, garbage_weight: 2, ..GenCfg::standard() },
            rule: "programs with several one-shot, notification and stream requests outstanding at once (equal operations included: requests are told apart only by their position in the program); schedules interleave resolutions, repeated resolutions of answered one-shots, resolutions of notifications and of ended streams; every resolution result (accepted / rejected) and the task that received each value are compared with the reference on the typed and on both serialized paths; non-trivial = >= 2 requests outstanding at once and >= 1 repeated or late resolution; distinct = distinct (host, universe)",
            nontrivial: |_, i| i.max_outstanding >= 2 && i.late_resolves >= 1,
            quick: 3_000,
            thorough: 30_000,
        },
        "C03" => Spec {
            prop: "C03",
            hosts: &[Core, Core, Legacy, BridgeBincode],
            gen: GenCfg::standard(),
            rule: "programs whose tasks emit bursts of events between requests, events that start follow-up programs, every resolution order, on Core (command and legacy API) and through the bridge; update carries a re-entrancy flag and appends every event it applies to a log in the model; per call: the log read through view equals the events applied according to the reference, every applied event was the oldest pending one of its emitter, nothing emitted is left unapplied; non-trivial = some call applied >= 2 events, or an applied event started a follow-up program; distinct = distinct (host, universe)",
            nontrivial: |_, i| i.max_events_in_call >= 2 || i.follow_ups > 0,
            quick: 3_000,
            thorough: 30_000,
        },
        "C13" => Spec {
            prop: "C13",
            hosts: &[Direct, Core, Core, Legacy, BridgeBincode, BridgeJson],
            gen: GenCfg { max_acts: 260, start_weight: 6, scale: false, garbage_weight: 1, ..GenCfg::standard() },
            rule: "long cyclic histories (up to 260 shell actions: programs started again and again, resolutions, drops, aborts, late resolutions) on direct / Core / legacy / bridge hosts; after every call: no finished task future is still held (drop counters on every task root future the generated program creates), the core's executor holds exactly as many tasks as there are unfinished commands returned by update, the bridge registry holds no entry for a request that can no longer be resolved (undecodable answers included); after dropping the host no task future exists; plus, on one thread, histories of up to 120 (thorough 600) timer cycles through both time APIs (fired / cleared and answered / cleared then fired / fired then cleared / handle dropped / cleared in the starting update), after each of which the executor must be empty and the legacy API's process-wide set of cleared ids as small as before; non-trivial = >= 100 actions in which the set of outstanding requests returned to empty >= 10 times; distinct = distinct (host, universe)",
            nontrivial: |_, i| i.actions >= 100 && i.returned_to_empty >= 10,
            quick: 600,
            thorough: 8_000,
        },
        "C04" => Spec {
            prop: "C04",
            hosts: &[Direct, Direct, Stream],
            gen: GenCfg { abortable: false, ..GenCfg::standard() },
            rule: "command expressions over done/event/notify/request/stream/builder chains/then/and/all/collect/map_event/map_effect/spawn/async tasks, depth <= 3, every resolve/drop order, inspected directly after every shell action or polled as a stream by a harness executor that polls only after a wake; non-trivial = depth >= 2 with >= 2 different combinators and a builder chain or stream; distinct = distinct universe",
            nontrivial: |u, _| {
                let s = uses(u);
                u.programs.iter().any(|p| p.depth() >= 2) && ["then", "and", "all", "map_event", "map_effect"].iter().filter(|k| s.contains(*k)).count() >= 2 && (s.contains("chain") || s.contains("stream"))
            },
            quick: 6_000,
            thorough: 40_000,
        },
        "C05" => Spec {
            prop: "C05",
            hosts: &[Direct, Stream, Core, Legacy, BridgeBincode, BridgeJson],
            gen: GenCfg { depth: 4, wrap: true, ..GenCfg::standard() },
            rule: "programs nested to depth <= 4 and then wrapped 1-6 more times (all([p]), done.then(p), p.then(done), p.and(done), map_event, map_effect, spawn-on-done), run on every host (direct inspection, manual stream polling by a harness executor that polls a command only after its waker was used, Core with the command API, Core with the legacy API, bincode bridge, JSON bridge) under every resolve / drop order; on each host every call is judged against the same reference semantics: the effects and events of the call, and in particular no task left runnable when the call returns (a wake-up lost between layers); a quarter of the cases use no reference at all: the universe (without cancellation and follow-up programs) runs in lock step on {direct, stream-polled, Core}, on {Core, bincode bridge, JSON bridge} and, if expressible, on {Core command API, Core legacy API}, and after every shell action the hosts must have returned the same effects (paths, kinds, map_effect marks), the same resolution result and applied the same events; non-trivial = total nesting depth >= 5 (>= 4 for lock-step cases) and a resolution or drop that happened while >= 2 requests were outstanding; distinct = distinct (host, universe, mode)",
            nontrivial: |u, i| u.programs.iter().any(|p| p.depth() >= 5) && i.max_outstanding >= 2,
            quick: 3_000,
            thorough: 30_000,
        },
        "C06" => Spec {
            prop: "C06",
            hosts: &[Direct, Core],
            gen: GenCfg { abort_weight: 3, behind_then: 12, ..GenCfg::standard() },
            rule: "programs with abortable commands, task aborts and exported join handles; schedules inject aborts and drops at generated points and keep resolving afterwards; non-trivial = a cancellation (abort or drop) happened while >= 1 other request was outstanding and a resolution followed; distinct = distinct (host, universe)",
            nontrivial: |_, i| (i.aborts + i.drops) >= 1 && i.max_outstanding >= 2,
            quick: 6_000,
            thorough: 40_000,
        },
        "C07" => Spec {
            prop: "C07",
            hosts: &[Direct],
            // mixed fates are the point: as many drops as resolutions
            gen: GenCfg { drop_weight: 8, ..GenCfg::standard() },
            rule: "programs mixing requests, streams, joins, selects, join handles, self-waking futures; schedules resolve some requests and drop others; is_done and the discarded/kept tasks are compared with the reference after every action; non-trivial = >= 1 drop and a join or select in the program; distinct = distinct universe",
            nontrivial: |u, i| {
                let s = uses(u);
                i.drops >= 1 && (s.contains("join") || s.contains("select") || s.contains("join_handle"))
            },
            quick: 12_000,
            thorough: 40_000,
        },
        "C09" => Spec {
            prop: "C09",
            hosts: &[BridgeBincode, BridgeJson],
            gen: GenCfg { garbage_weight: 1, ..GenCfg::standard() },
            rule: "histories with many requests outstanding and out-of-order responses through the bincode and JSON bridges; decoded requests, ids and view compared with the reference; non-trivial = >= 3 requests outstanding at once, responses out of issue order; distinct = distinct (host, universe)",
            nontrivial: |_, i| i.max_outstanding >= 3 && i.out_of_order,
            quick: 3_000,
            thorough: 30_000,
        },
        _ => return None,
    })
}

/// Which clause of the oracle a failure message belongs to. Every campaign evaluates the whole
/// oracle (the reference has to stay in step), but a property's check reports only failures of the
/// clauses its statement covers; any other failure ends the case unjudged and is counted as
/// `foreign:<clause>` - the check of the property that owns the clause reports it.
pub fn clause_of(msg: &str) -> &'static str {
    const TABLE: &[(&str, &str)] = &[
        ("cancelled work was polled", "cancelled-polled"),
        // cancelled work that is still held when the call returns: C06 (an aborted command is done at once) and C13 (released)
        ("an aborted command was cleared but kept", "cancelled-kept"),
        ("a task something can still wake was discarded", "discarded-alive"),
        ("a legacy task", "discarded-alive"),
        ("a task nothing can wake any more was kept", "dead-kept"),
        ("is_done()", "done-flag"),
        ("runnable work left behind", "runnable-left"),
        ("which is not pending", "event-once"),
        ("before an earlier event of the same emitter", "event-order"),
        ("events were emitted but not applied", "events-unapplied"),
        ("the view shows", "view"),
        ("update was entered while", "reentrancy"),
        ("a resolution was", "resolve-result"),
        ("but the task received", "delivery"),
        ("[bridge-panic]", "resolve-result"),
        ("the call returned effects", "effects"),
        ("was returned twice by one call", "effects"),
        ("is not in the call's return value", "effects"),
        ("the bridge handed out id", "bridge-ids"),
        ("returned requests do not decode", "bridge-bytes"),
        ("view does not decode", "bridge-bytes"),
        ("[finished-task-retained]", "release"),
        ("[executor-occupancy]", "release"),
        ("[registry-", "release"),
        ("[retained-after-drop]", "release"),
        ("driver error", "driver"),
        ("a request the reference never issued", "driver"),
        // what a task did, poll by poll, differs from the reference semantics of the program
        ("the real runtime polled task", "conformance"),
        ("the real runtime dropped task", "conformance"),
        ("after this poll, the real task", "conformance"),
        ("finished without a poll", "conformance"),
    ];
    TABLE.iter().find(|(k, _)| msg.contains(k)).map(|(_, c)| *c).unwrap_or("unclassified")
}

pub fn owns(prop: &str, clause: &str, cancel_context: bool) -> bool {
    // C06 is about what a cancellation does and does not do: whatever goes wrong in the call that
    // cancels (drop, abort, a task aborting other work), or in a call that resolves a request of
    // cancelled work, is a consequence of the cancellation
    if prop == "C06" && cancel_context && ["runnable-left", "dead-kept", "done-flag", "events-unapplied", "view", "delivery", "resolve-result"].contains(&clause) {
        return true;
    }
    let list: &[&str] = match prop {
        "C01" => &["effects", "runnable-left", "events-unapplied", "discarded-alive"],
        "C02" => &["resolve-result", "delivery"],
        "C03" => &["event-once", "event-order", "events-unapplied", "view", "reentrancy"],
        "C04" => &["conformance", "effects", "view", "done-flag", "runnable-left", "events-unapplied", "discarded-alive", "dead-kept"],
        "C05" => &["conformance", "effects", "runnable-left", "events-unapplied", "view", "discarded-alive"],
        "C06" => &["cancelled-polled", "cancelled-kept", "discarded-alive", "effects", "conformance"],
        "C07" => &["done-flag", "dead-kept", "discarded-alive"],
        "C09" => &["bridge-ids", "bridge-bytes", "effects", "view", "resolve-result", "delivery"],
        "C13" => &["release", "dead-kept", "cancelled-kept"],
        _ => &[],
    };
    // a failure nobody has classified is reported rather than hidden; a driver error is the harness's own
    list.contains(&clause) || clause == "unclassified"
}

/// minimal inputs for the signatures that can be listed as known findings: (host, case, text the strict run must report)
pub fn reproducer(sig: &str) -> Option<(HostKind, Universe, &'static str)> {
    let uni = |programs: &str, acts: &str| -> Universe { serde_json::from_str(&format!("{{\"programs\":{programs},\"follow\":null,\"acts\":{acts}}}")).expect("reproducer is valid") };
    Some(match sig {
        // a task joining 31 requests, all of which the shell drops: nothing can wake it, yet it is kept
        "evict-retained-waker" => (HostKind::Direct, uni(r#"[{"Async":[0,[{"JoinBig":31}]]}]"#, &format!("[{}]", vec![r#"{"Drop":0}"#; 31].join(","))), "inside a waker-retaining construct"),
        "registry-keeps-notifications" => (HostKind::BridgeBincode, uni(r#"[{"Notify":0}]"#, "[]"), "[registry-keeps-notifications]"),
        // a task that takes one item of a stream and ends
        "registry-keeps-ended-streams" => (HostKind::BridgeBincode, uni(r#"[{"Async":[0,[{"StreamLoop":[1,[{"Emit":1}]]}]]}]"#, r#"[{"Resolve":0},{"Resolve":0}]"#), "[registry-keeps-ended-streams]"),
        // a legacy-API task awaiting one request, which the shell drops
        "legacy-task-kept-after-request-dropped" => (HostKind::Legacy, uni(r#"[{"Async":[0,["Await"]]}]"#, r#"[{"Drop":0}]"#), "legacy capability API"),
        _ => return None,
    })
}

pub fn labels(u: &Universe, info: &CaseInfo, host: HostKind) -> Vec<String> {
    let mut l: Vec<String> = uses(u).into_iter().map(|s| format!("uses:{s}")).collect();
    l.push(format!("host:{host:?}"));
    if u.legacy_mask != 0 && matches!(host, HostKind::Core | HostKind::BridgeBincode | HostKind::BridgeJson) {
        let (mut legacy, mut command) = (false, false);
        for (p, c) in u.programs.iter().enumerate() {
            if sim::app::through_legacy_api(u.legacy_mask, p as u16, c) {
                legacy = true;
            } else {
                command = true;
            }
        }
        if legacy {
            l.push(if command { "mixed:legacy-api-and-command-api-programs-in-one-core".into() } else { "mixed:legacy-api-programs-on-a-command-host".into() });
        }
    }
    if info.drops > 0 {
        l.push("sched:drop".into());
    }
    if info.aborts > 0 {
        l.push("sched:abort".into());
    }
    if info.late_resolves > 0 {
        l.push("sched:late-resolve".into());
    }
    if info.id_reused {
        l.push("bridge:id-reused".into());
    }
    if info.spurious_polls > 0 {
        l.push("obs:spurious-poll".into());
    }
    if info.drains > 0 {
        l.push("sched:drain".into());
    }
    if info.late_spawns > 0 {
        l.push("sched:task-spawned-on-an-existing-command".into());
    }
    if matches!(host, HostKind::Direct) {
        l.push(format!("direct:inspection-style-{}", u.inspect % 5));
    }
    if info.garbage > 0 {
        l.push("sched:garbage-to-live-stream".into());
    }
    if info.in_task_aborts > 0 {
        l.push("obs:abort-from-inside-a-task".into());
    }
    if info.max_outstanding > 1024 {
        l.push("scale:outstanding>1024".into());
    }
    if info.max_events_in_call > 1024 {
        l.push("scale:events-in-one-call>1024".into());
    }
    l
}


/// One property's campaign: the known-finding tolerances, the counters and the judgement of a case.
/// Shared by the proptest campaign (main.rs) and the coverage-guided driver (harness/fuzz, `sim_case`).
pub struct Judge {
    pub sp: Spec,
    pub known: Vec<vkit::Known>,
    pub tolerate_retaining: bool,
    pub tolerate_legacy_kept: bool,
    pub tolerate: Vec<String>,
    pub stats: Stats,
    pub driver_errors: std::sync::atomic::AtomicU64,
}

impl Judge {
    pub fn new(prop: &str) -> Option<Judge> {
        let sp = spec(prop)?;
        let known = vkit::known_findings(sp.prop);
        let tolerate_retaining = vkit::is_known(&known, "evict-retained-waker") || vkit::is_known(&vkit::known_findings("C07"), "evict-retained-waker");
        let tolerate_legacy_kept = vkit::is_known(&vkit::known_findings("C13"), "legacy-task-kept-after-request-dropped");
        let tolerate: Vec<String> = known.iter().map(|k| k.sig.clone()).collect();
        Some(Judge { sp, known, tolerate_retaining, tolerate_legacy_kept, tolerate, stats: Stats::new(), driver_errors: std::sync::atomic::AtomicU64::new(0) })
    }

    pub fn check(&self, c: &Case) -> Result<(), String> {
        let (sp, stats) = (&self.sp, &self.stats);
        if c.cross && sp.prop == "C05" {
            if !cross_comparable(&c.universe) {
                stats.label("cross:not-in-the-comparable-fragment");
                return Ok(());
            }
            // command-API hosts with the full schedule (drops included)
            let a = run_cross(&c.universe, &[HostKind::Direct, HostKind::Stream, HostKind::Core], true).map_err(|e| format!("[cross-host] {e}"))?;
            // the serialized hosts against the typed core (a shell cannot drop a serialized request)
            let b = run_cross(&c.universe, &[HostKind::Core, HostKind::BridgeBincode, HostKind::BridgeJson], false).map_err(|e| format!("[cross-host] {e}"))?;
            // the legacy capability API against the command API when the program can be written in it (tasks
            // only; no select: its executor orders polls differently; no drops: in that API a dropped request
            // wakes nobody, the waiting task simply stays - see DESIGN 4.4)
            let s = uses(&c.universe);
            let with_legacy = c.universe.programs.iter().all(sim::legacy::expressible) && !s.contains("select");
            if with_legacy {
                run_cross(&c.universe, &[HostKind::Core, HostKind::Legacy], false).map_err(|e| format!("[cross-host] {e}"))?;
            }
            let nt = c.universe.programs.iter().any(|p| p.depth() >= 4) && a.max_outstanding >= 2;
            stats.case(&(c.host, &c.universe, true), nt, &["cross:compared", if with_legacy { "cross:with-legacy-api" } else { "cross:command-api-hosts" }]);
            let _ = b;
            return Ok(());
        }
        let info = match run_case(&c.universe, &CaseCfg { host: c.host, tolerate_retaining: self.tolerate_retaining, byte_late_resolves: sp.prop == "C02", release_checks: sp.prop == "C13", tolerate: self.tolerate.clone(), tolerate_legacy_kept: self.tolerate_legacy_kept }) {
            Ok(info) => info,
            Err(fail) => {
                // every clause that failed in the first failing call; report the first one this property owns
                if let Some(why) = fail.msgs.iter().find(|w| owns(sp.prop, clause_of(w), fail.cancel_context)) {
                    return Err(format!("[{}] after {}: {why}", clause_of(why), fail.act));
                }
                // none of them is this property's clause: the case ends unjudged
                let clause = clause_of(&fail.msgs[0]);
                if clause == "driver" {
                    self.driver_errors.fetch_add(1, std::sync::atomic::Ordering::Relaxed);
                    eprintln!("harness error: {}", fail.msgs[0]);
                }
                stats.label(&format!("foreign:{clause}"));
                if let Some(dir) = std::env::var_os("VERIF_DUMP_FOREIGN") {
                    // (debugging aid: what did another property's clause object to?)
                    let _ = std::fs::create_dir_all(&dir);
                    let body = serde_json::json!({ "property": sp.prop, "why": format!("[{clause}] after {}: {}", fail.act, fail.msgs[0]), "case": c });
                    let text = serde_json::to_string(&body).unwrap_or_default();
                    let _ = std::fs::write(std::path::Path::new(&dir).join(format!("{}-{clause}-{:016x}.json", sp.prop, vkit::fnv(text.as_bytes()))), text);
                }
                return Ok(());
            }
        };
        let nt = (sp.nontrivial)(&c.universe, &info);
        let ls = labels(&c.universe, &info, c.host);
        let refs: Vec<&str> = ls.iter().map(|s| s.as_str()).collect();
        stats.case(&(c.host, &c.universe, false), nt, &refs);
        if info.used_retaining_exemption > 0 {
            stats.excluded_known("evict-retained-waker");
        }
        if info.used_legacy_exemption > 0 {
            stats.excluded_known("legacy-task-kept-after-request-dropped");
        }
        for t in &info.tolerated {
            stats.excluded_known(t);
        }
        if nt && stats.wants_sample() {
            stats.sample(|| serde_json::to_value(c).unwrap());
        }
        Ok(())
    }

    /// The generator of the campaign: host x universe (x lock-step mode for C05). `mix_long`: half of the
    /// cases use schedules of up to 260 shell actions; `long`: all of them do; `small`: the sizes that
    /// make a case expensive are left out (bursts / drains / joins of > 1000, schedules of > 60 actions) -
    /// the coverage-guided driver runs ten times slower per case and rewards whatever executes more code.
    pub fn strategy(&self, mix_long: bool, long: bool, small: bool) -> proptest::strategy::BoxedStrategy<Case> {
        use proptest::prelude::*;
        let prop = self.sp.prop;
        let hosts = self.sp.hosts;
        let gen = if long { GenCfg { max_acts: 260, ..self.sp.gen } } else { self.sp.gen };
        let cross_share = if prop == "C05" { 0.25 } else { 0.0 };
        (proptest::sample::select(hosts.to_vec()), any::<bool>(), proptest::bool::weighted(cross_share))
            .prop_flat_map(move |(h, l, cross)| {
                let mut g = if h == HostKind::Legacy { GenCfg::legacy() } else { gen };
                if mix_long && l {
                    g.max_acts = 260;
                }
                if small {
                    g.scale = false;
                    g.max_acts = g.max_acts.min(60);
                }
                if cross {
                    // the comparable fragment: no cancellation from inside, no follow-up programs
                    g.task_aborts = false;
                    g.abortable = false;
                }
                universe(g).prop_map(move |mut u| {
                    if cross {
                        u.follow = None;
                    }
                    Case { host: h, universe: u, cross }
                })
            })
            .boxed()
    }
}
