//! C13, timer clause: "repeated timer set/clear" must not accumulate anything.
//!
//! A `Core` whose app uses both time APIs runs a generated sequence of *cycles*; every cycle starts
//! one timer and brings it to its end (fired, cleared and answered, cleared then fired, fired then
//! cleared late, handle dropped then fired, cleared in the update that started it). After every
//! cycle nothing is outstanding, so: the core's executor holds no task, and the process-wide set in
//! which the legacy API remembers cleared ids (verif hook) is as small as it was before the case.
//! Runs on one thread (the set is process-wide), before the main C13 campaign.

use crux_core::macros::Effect;
use crux_core::render::Render;
use crux_core::{Command, Core, Request};
use crux_time::command::{Time as CmdTime, TimerHandle, TimerOutcome};
use crux_time::{Time, TimeRequest, TimeResponse, TimerId};
use serde::{Deserialize, Serialize};
use std::time::Duration;

#[derive(Debug, Clone, Copy, PartialEq, Eq, Hash, Serialize, Deserialize)]
pub enum Cycle {
    LegacyFire,
    LegacyClearThenFire,
    /// the timer completes, then the app clears it (the listed finding `legacy-late-clear-leaks-timer-id`)
    LegacyFireThenClear,
    LegacyStartAndClear,
    CmdFire,
    CmdClearAnswered,
    CmdFireThenClear,
    CmdDropHandleThenFire,
    CmdClearBeforeFirstPoll,
    /// a legacy timer is cleared while its request is pending, and then the whole core is dropped
    /// (the timer's future goes away without having been polled again): the clear must go with it
    LegacyClearThenDropCore,
    /// `notify_after_async`: the future is created, cleared and discarded without ever being awaited
    LegacyAsyncClearedUnawaited,
    /// cleared while pending, the clear observed (the shell answers, the timer reports cleared), and then
    /// the app clears the same id once more
    LegacyClearObservedThenClearAgain,
}

pub enum Event {
    LegacyAsyncUnawaited,
    Legacy(bool),
    LegacyStartAndClear,
    LegacyClear,
    Cmd,
    CmdStartAndClear,
    CmdClear,
    CmdDropHandle,
    Out,
}
#[derive(Effect)]
#[allow(dead_code)]
pub struct Capabilities {
    pub time: Time<Event>,
    pub render: Render<Event>,
}
#[derive(Default)]
pub struct App;
#[derive(Default)]
pub struct Model {
    last_legacy: Option<TimerId>,
    handle: Option<TimerHandle>,
    outcomes: u64,
}
impl crux_core::App for App {
    type Event = Event;
    type Model = Model;
    type ViewModel = u64;
    type Capabilities = Capabilities;
    type Effect = Effect;
    fn update(&self, ev: Event, m: &mut Model, caps: &Capabilities) -> Command<Effect, Event> {
        match ev {
            Event::Legacy(after) => {
                m.last_legacy = Some(if after { caps.time.notify_after(Duration::from_secs(1), |_| Event::Out) } else { caps.time.notify_at(std::time::SystemTime::UNIX_EPOCH + Duration::from_secs(9), |_| Event::Out) });
                Command::done()
            }
            Event::LegacyStartAndClear => {
                let id = caps.time.notify_after(Duration::from_secs(1), |_| Event::Out);
                caps.time.clear(id);
                Command::done()
            }
            Event::LegacyAsyncUnawaited => {
                let (future, id) = caps.time.notify_after_async(Duration::from_secs(1));
                caps.time.clear(id);
                drop(future);
                Command::done()
            }
            Event::LegacyClear => {
                if let Some(id) = m.last_legacy {
                    caps.time.clear(id);
                }
                Command::done()
            }
            Event::Cmd => {
                let (b, h) = CmdTime::<Effect, Event>::notify_after(Duration::from_secs(1));
                m.handle = Some(h);
                b.then_send(|_: TimerOutcome| Event::Out)
            }
            Event::CmdStartAndClear => {
                let (b, h) = CmdTime::<Effect, Event>::notify_after(Duration::from_secs(1));
                h.clear();
                b.then_send(|_: TimerOutcome| Event::Out)
            }
            Event::CmdClear => {
                if let Some(h) = m.handle.take() {
                    h.clear();
                }
                Command::done()
            }
            Event::CmdDropHandle => {
                m.handle = None;
                Command::done()
            }
            Event::Out => {
                m.outcomes += 1;
                Command::done()
            }
        }
    }
    fn view(&self, m: &Model) -> u64 {
        m.outcomes
    }
}

fn time_reqs(effects: Vec<Effect>) -> Vec<Request<TimeRequest>> {
    effects.into_iter().filter_map(|e| if let Effect::Time(r) = e { Some(r) } else { None }).collect()
}

fn answer(core: &Core<App>, mut req: Request<TimeRequest>) -> Result<Vec<Request<TimeRequest>>, String> {
    let resp = match &req.operation {
        TimeRequest::NotifyAfter { id, .. } => TimeResponse::DurationElapsed { id: *id },
        TimeRequest::NotifyAt { id, .. } => TimeResponse::InstantArrived { id: *id },
        TimeRequest::Clear { id } => TimeResponse::Cleared { id: *id },
        TimeRequest::Now => return Err("unexpected Now request".into()),
    };
    core.resolve(&mut req, resp).map(time_reqs).map_err(|e| format!("an answer was rejected: {e}"))
}

/// Err((signature, explanation)); Ok(number of cycles run)
pub fn run(cycles: &[Cycle]) -> Result<usize, (String, String)> {
    let mut core: Core<App> = Core::new();
    let base = crux_time::verif_cleared_timer_ids_len();
    let fail = |sig: &str, why: String| Err((sig.to_string(), why));
    let mut outcomes = 0u64;
    for (k, c) in cycles.iter().enumerate() {
        let notify_only = |v: Vec<Request<TimeRequest>>| -> Result<Request<TimeRequest>, (String, String)> {
            let mut v: Vec<_> = v.into_iter().filter(|r| !matches!(r.operation, TimeRequest::Clear { .. })).collect();
            if v.len() != 1 {
                return Err(("driver".into(), format!("cycle {k} ({c:?}): expected one notify request, got {}", v.len())));
            }
            Ok(v.pop().unwrap())
        };
        let e = |e: String| ("error".to_string(), format!("cycle {k} ({c:?}): {e}"));
        let expect_outcome;
        match c {
            Cycle::LegacyFire => {
                let r = notify_only(time_reqs(core.process_event(Event::Legacy(k % 2 == 0))))?;
                answer(&core, r).map_err(e)?;
                expect_outcome = true;
            }
            Cycle::LegacyClearThenFire => {
                let r = notify_only(time_reqs(core.process_event(Event::Legacy(true))))?;
                core.process_event(Event::LegacyClear); // a Clear notification goes to the shell
                answer(&core, r).map_err(e)?;
                expect_outcome = true;
            }
            Cycle::LegacyFireThenClear => {
                let r = notify_only(time_reqs(core.process_event(Event::Legacy(true))))?;
                answer(&core, r).map_err(e)?;
                core.process_event(Event::LegacyClear);
                expect_outcome = true;
            }
            Cycle::LegacyStartAndClear => {
                core.process_event(Event::LegacyStartAndClear);
                expect_outcome = true;
            }
            Cycle::CmdFire => {
                let r = notify_only(time_reqs(core.process_event(Event::Cmd)))?;
                answer(&core, r).map_err(e)?;
                core.process_event(Event::CmdDropHandle);
                expect_outcome = true;
            }
            Cycle::CmdClearAnswered => {
                let _pending = notify_only(time_reqs(core.process_event(Event::Cmd)))?;
                let clear: Vec<_> = time_reqs(core.process_event(Event::CmdClear)).into_iter().filter(|r| matches!(r.operation, TimeRequest::Clear { .. })).collect();
                if clear.len() != 1 {
                    return fail("error", format!("cycle {k}: clearing a pending timer sent {} Clear requests", clear.len()));
                }
                for r in clear {
                    answer(&core, r).map_err(e)?;
                }
                expect_outcome = true;
                // the notify request is dropped unanswered (the shell cleared the timer)
            }
            Cycle::CmdFireThenClear => {
                let r = notify_only(time_reqs(core.process_event(Event::Cmd)))?;
                answer(&core, r).map_err(e)?;
                core.process_event(Event::CmdClear);
                expect_outcome = true;
            }
            Cycle::CmdDropHandleThenFire => {
                let r = notify_only(time_reqs(core.process_event(Event::Cmd)))?;
                core.process_event(Event::CmdDropHandle);
                answer(&core, r).map_err(e)?;
                expect_outcome = true;
            }
            Cycle::LegacyClearThenDropCore => {
                let _unanswered = notify_only(time_reqs(core.process_event(Event::Legacy(k % 2 == 0))))?;
                core.process_event(Event::LegacyClear);
                core = Core::new();
                outcomes = 0;
                expect_outcome = false;
            }
            Cycle::LegacyClearObservedThenClearAgain => {
                let r = notify_only(time_reqs(core.process_event(Event::Legacy(k % 2 == 0))))?;
                core.process_event(Event::LegacyClear);
                answer(&core, r).map_err(e)?;
                core.process_event(Event::LegacyClear);
                expect_outcome = true;
            }
            Cycle::LegacyAsyncClearedUnawaited => {
                let v: Vec<_> = time_reqs(core.process_event(Event::LegacyAsyncUnawaited)).into_iter().filter(|r| !matches!(r.operation, TimeRequest::Clear { .. })).collect();
                if !v.is_empty() {
                    return fail("error", format!("cycle {k}: a timer future that was never awaited sent {} requests", v.len()));
                }
                expect_outcome = false;
            }
            Cycle::CmdClearBeforeFirstPoll => {
                let v = time_reqs(core.process_event(Event::CmdStartAndClear));
                if !v.is_empty() {
                    return fail("error", format!("cycle {k}: a timer cleared before it was requested sent {} requests", v.len()));
                }
                expect_outcome = true;
            }
        }
        if expect_outcome {
            outcomes += 1;
        }
        // ---- nothing is outstanding now
        if core.view() != outcomes {
            return fail("error", format!("cycle {k} ({c:?}): {} timer outcomes reached the app, {} expected", core.view(), outcomes));
        }
        let tasks = core.verif_executor_tasks();
        if tasks != 0 {
            return fail("timer-task-retained", format!("after cycle {k} ({c:?}) nothing is outstanding, yet the core's executor holds {tasks} tasks"));
        }
        let grown = crux_time::verif_cleared_timer_ids_len().saturating_sub(base);
        if grown != 0 {
            let sig = if *c == Cycle::LegacyFireThenClear { "legacy-late-clear-leaks-timer-id" } else { "cleared-timer-ids-grow" };
            return fail(sig, format!("after cycle {k} ({c:?}) nothing is outstanding, yet the process-wide set of cleared timer ids has grown by {grown}"));
        }
    }
    Ok(cycles.len())
}
