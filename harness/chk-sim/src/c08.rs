//! C08 — concurrent shells lose nothing (Engine B, see sim::conc).
use proptest::prelude::*;
use serde::{Deserialize, Serialize};
use sim::conc::{run_conc, ConcCase, Job};
use sim::free::{run_free, FreeCase};
use sim::gen::{universe, GenCfg};
use sim::shell::HostKind;
use vkit::{Mode, Outcome, Report, Stats};

/// a replay file holds a case of either clause
#[derive(Debug, Clone, Serialize, Deserialize)]
#[serde(untagged)]
enum AnyCase {
    Free(FreeCase),
    Conc(ConcCase),
}

/// second clause: free-running threads against a sequential twin (see sim::free)
fn free_strategy() -> BoxedStrategy<FreeCase> {
    let job = prop_oneof![
        10 => any::<u16>().prop_map(Job::Resolve),
        2 => any::<u16>().prop_map(Job::Drop),
        1 => (0u8..2).prop_map(Job::Start),
        1 => Just(Job::Noop),
        1 => Just(Job::View),
    ];
    let phases = prop::collection::vec(prop::collection::vec(prop::collection::vec(job, 1..4), 2..5), 1..7);
    let base = GenCfg { abortable: false, task_aborts: false, select: false, chans: false, mixed: 0, max_acts: 1, scale: false, ..GenCfg::standard() };
    let legacy = GenCfg { select: false, chans: false, max_acts: 1, scale: false, ..GenCfg::legacy() };
    let host = prop_oneof![3 => Just(HostKind::Core), 2 => Just(HostKind::Legacy), 2 => Just(HostKind::BridgeBincode), 2 => Just(HostKind::BridgeJson)];
    (host, universe(base), universe(legacy), phases)
        .prop_map(|(host, u, ul, phases)| {
            let mut universe = if host == HostKind::Legacy { ul } else { u };
            universe.acts.clear();
            universe.follow = None;
            FreeCase { universe, host, phases }
        })
        .boxed()
}

/// how often a saved free-running case is re-run (its interleavings are chosen by the machine)
const FREE_REPLAYS: usize = 300;

fn strategy() -> BoxedStrategy<ConcCase> {
    let job = prop_oneof![
        8 => any::<u16>().prop_map(Job::Resolve),
        2 => any::<u16>().prop_map(Job::Drop),
        1 => (0u8..2).prop_map(Job::Start),
        1 => Just(Job::Noop),
        2 => Just(Job::View),
    ];
    let cfg = GenCfg { abortable: false, task_aborts: false, retaining: false, select_keep: false, mixed: 0, max_acts: 1, scale: false, ..GenCfg::standard() };
    (universe(cfg), prop::collection::vec(prop::collection::vec(job, 2..4), 1..7), prop::collection::vec((any::<u8>(), any::<u8>()), 0..80), proptest::bool::weighted(0.3))
        .prop_map(|(mut universe, phases, choices, park_in_app)| {
            universe.acts.clear();
            ConcCase { universe, phases, choices, park_in_app }
        })
        .boxed()
}

pub fn main(mode: Mode) {
    let prop = "C08";
    let stats = Stats::new();
    let check = |c: &ConcCase| -> Result<(), String> {
        let info = run_conc(c)?;
        let nt = info.wake_inside_eviction_window || info.executor_overlap || info.held_in_app_while_other_ran;
        let mut labels = vec![];
        if info.wake_inside_eviction_window {
            labels.push("sched:wake-inside-eviction-window");
        }
        if info.executor_overlap {
            labels.push("sched:executor-overlap");
        }
        if info.held_in_app_while_other_ran {
            labels.push("sched:held-inside-view-or-update-while-another-worker-ran");
        }
        if info.forced_releases > 0 {
            labels.push("sched:lock-holder-let-go-because-the-other-worker-blocked");
        }
        if info.concurrent_phases > 0 {
            labels.push("phase:concurrent");
        }
        if info.switches >= 3 {
            labels.push("sched:>=3-switches");
        }
        stats.case(c, nt, &labels);
        if nt && stats.wants_sample() {
            stats.sample(|| serde_json::to_value(c).unwrap());
        }
        Ok(())
    };
    let check_free = |c: &FreeCase| -> Result<(), String> {
        let info = run_free(c)?;
        let nt = info.concurrent_resolutions;
        let mut labels = vec![match c.host {
            HostKind::Core => "free:host=core",
            HostKind::Legacy => "free:host=legacy-capability-api",
            HostKind::BridgeBincode => "free:host=bincode-bridge",
            HostKind::BridgeJson => "free:host=json-bridge",
            _ => "free:host=other",
        }];
        if info.concurrent_resolutions {
            labels.push("free:>=2-threads-resolving-at-once");
        }
        if info.max_threads >= 3 {
            labels.push("free:>=3-threads");
        }
        if info.stream_items > 0 {
            labels.push("free:stream-items-delivered");
        }
        if info.drops > 0 {
            labels.push("free:requests-dropped-on-a-shell-thread");
        }
        if info.events >= 4 {
            labels.push("free:>=4-events-applied");
        }
        stats.case(c, nt, &labels);
        Ok(())
    };
    let replay_any = |v: serde_json::Value| -> Result<(), String> {
        match serde_json::from_value::<AnyCase>(v).map_err(|e| e.to_string())? {
            AnyCase::Conc(c) => check(&c),
            AnyCase::Free(c) => (0..FREE_REPLAYS).try_for_each(|_| check_free(&c)),
        }
    };
    match mode {
        Mode::Replay(path) => {
            let res = vkit::read_replay(&path).and_then(replay_any);
            vkit::finish_replay(prop, &path, res)
        }
        Mode::Run(tier) => {
            let started = std::time::Instant::now();
            vkit::watchdog("C08", tier.pick(900, 7200));
            let mut replayed = 0;
            for f in vkit::replay_files(prop) {
                replayed += 1;
                if let Err(why) = vkit::read_replay(&f).and_then(replay_any) {
                    println!("why: {why}");
                    println!("VIOLATION property={prop} replay={}", f.display());
                    std::process::exit(1);
                }
            }
            vkit::MAX_SHRINK_ITERS.store(3_000, std::sync::atomic::Ordering::Relaxed);
            let outcome = vkit::run_prop(prop, vkit::workers_for(tier), tier.pick(500, 40_000), strategy, check);
            let outcome = match outcome {
                Outcome::Held if stats.distinct_nontrivial() < 2 => Outcome::Inconclusive("generator produced no non-trivial case".into()),
                // second clause: few workers, so that the threads of a case really run at the same time
                Outcome::Held => vkit::run_prop("C08-free", 5, tier.pick(2_400, 160_000), free_strategy, check_free),
                o => o,
            };
            vkit::finish(
                Report {
                    prop,
                    tier,
                    rule: "universes (command API, depth <= 3, no aborts) x 1-6 phases of 2-3 concurrent shell calls on one Core (resolutions of distinct live requests, requests dropped unanswered on the calling thread followed by a no-op call, shell events, view reads), each call on its own thread, under a harness-owned schedule: crux_core's verif points park every thread, a generated run-length-encoded choice list (<= 80 entries, then round-robin) releases one at a time; in 30 % of the cases workers are also parked inside the app's view / update, i.e. while holding the model lock (a worker that then blocks on that lock is detected by its silence and the holder is let go); the totally ordered witness trace of each phase is replayed on the reference runtime and the per-phase obligations are checked (nothing runnable, nothing discarded while alive, every effect returned by exactly one call, view = applied events, concurrent view reads are prefixes, quiescent afterwards); SECOND CLAUSE (free-running): order-independent universes (no select, cancellation, channel receive or follow-up program) on the typed Core, the legacy capability API, the bincode bridge and the JSON bridge; 1-6 phases in which 2-4 OS threads, released together by a barrier, each make 1-3 calls back to back (resolutions of distinct outstanding requests, typed hosts: requests dropped unanswered followed by a no-op call, one program start, no-ops, view reads) with no schedule control; every phase is compared with a sequential twin (a second instance of the host given the same calls one after the other): same multiset of effects, same resolution results, same events applied; plus model-free invariants (each effect returned once, delivery exact and in order, events once and per emitter in order, update not re-entered, view = update log, ids of outstanding requests distinct, quiescent afterwards); non-trivial there = >= 2 threads resolving at once. FIRST CLAUSE: non-trivial = a worker was held between a command task's poll and its eviction decision while another worker passed a waker step, or held at an executor point while another worker ran the executor, or held inside view / update while another worker ran; distinct = distinct case",
                    assumptions: vec![
                        "schedule points in crux are outside every crux lock; a traced task poll is one atomic schedule step; the points inside the test app's view / update are reached while the model lock is held, and a 15 ms silence of the released worker is read as 'blocked on that lock' (this affects only which schedules are explored, never a verdict)".into(),
                        "memory-ordering effects below the granularity of the schedule points are not explored".into(),
                        "owned schedules: typed Core API only (the bridge holds its registry lock across a wake); the bridges and the legacy API are reached by the free-running clause".into(),
                        "free-running clause: which interleavings occur is up to the machine and is not reproducible; a verdict never depends on it (any divergence from the sequential twin is a violation), only the chance of meeting a defect does; a saved case is re-run 300 times on replay".into(),
                    ],
                    started,
                    replayed,
                },
                &stats,
                outcome,
            )
        }
    }
}
