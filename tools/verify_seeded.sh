#!/bin/bash
# Confirm a seeded change independently in a scratch worktree of /repo (outside /repo and /verif):
#   demo fails with the patch, the pinned suite passes with the patch, demo passes without the patch.
# usage: tools/verify_seeded.sh <dir with patch.diff, meta.json, demo/> <scratch worktree> 
set -u
D="$(cd "$1" && pwd)"; WT="$2"
export RUSTUP_TOOLCHAIN=stable-x86_64-unknown-linux-gnu CARGO_NET_OFFLINE=true
cd "$WT" || exit 2
git checkout -q -- . && git clean -qfd -e target
crate=$(python3 -c "import json,re,sys; m=json.load(open('$D/meta.json')); c=re.search(r'-p\s+(\S+)', m.get('demo_cmd','')); print(c.group(1) if c else 'crux_core')")
feat=$(python3 -c "import json,re; m=json.load(open('$D/meta.json')); c=re.search(r'--features[= ]+(\S+)', m.get('demo_cmd','')); print('--features '+c.group(1) if c else '')")
demo=$(ls "$D"/demo/*.rs | head -1); name=$(basename "$demo" .rs)
mkdir -p "$crate/tests"; cp "$demo" "$crate/tests/$name.rs"
run_demo() { cargo nextest run -p "$crate" $feat --test "$name" --offline --no-fail-fast 2>&1 | grep -E "Summary|error(\[|:)" | head -3; }
echo "== demo WITHOUT patch"; run_demo
git apply "$D/patch.diff" || { echo "PATCH DOES NOT APPLY"; exit 1; }
echo "== demo WITH patch"; run_demo
rm -f "$crate/tests/$name.rs"
echo "== suite WITH patch"; cargo nextest run --workspace --no-fail-fast --offline --test-threads 8 2>&1 | grep -E "Summary|FAIL" | head -5
git checkout -q -- . && git clean -qfd -e target
