#!/usr/bin/env python3
"""Writes MANIFEST.json (run from /verif). Texts are per property; commands are uniform."""
import json
props = {
 "C01": ("sim", "property-based testing (proptest): generated programs x shell schedules x hosts; model-free trace invariants (hand-over exactly once, delivery, event order) + trace-guided refinement against a reference runtime; in the thorough tier also coverage-guided fuzzing (libFuzzer target sim_case: the fuzzer's bytes drive the campaign's own proptest generator, the campaign's oracle is inside the target)", "§7 C01, §4, §14.2"),
 "C02": ("sim", "property-based testing (proptest): generated histories with repeated / late / notification / ended-stream resolutions on typed and serialized paths; results and receivers compared with the reference; in the thorough tier also coverage-guided fuzzing (libFuzzer target sim_case: the fuzzer's bytes drive the campaign's own proptest generator, the campaign's oracle is inside the target)", "§7 C02"),
 "C03": ("sim", "property-based testing (proptest): re-entrancy flag + applied-event log vs reference; per-emitter order; every emitted event applied before the call returns; in the thorough tier also coverage-guided fuzzing (libFuzzer target sim_case: the fuzzer's bytes drive the campaign's own proptest generator, the campaign's oracle is inside the target)", "§7 C03"),
 "C04": ("sim", "property-based testing (proptest): combinator expressions judged by trace-guided refinement, direct host; in the thorough tier also coverage-guided fuzzing (libFuzzer target sim_case: the fuzzer's bytes drive the campaign's own proptest generator, the campaign's oracle is inside the target)", "§7 C04"),
 "C05": ("sim", "property-based testing: deeply wrapped programs on six hosts (direct, stream-polled, Core command API, Core legacy API, bincode bridge, JSON bridge) against one reference; plus reference-free lock-step comparison of the hosts' observations; in the thorough tier also coverage-guided fuzzing (libFuzzer target sim_case: the fuzzer's bytes drive the campaign's own proptest generator, the campaign's oracle is inside the target)", "§7 C05, §14.2"),
 "C06": ("sim", "property-based testing (proptest): aborts / drops at generated points, late resolutions afterwards; reference rules: aborted work may be dropped, must never be polled; in the thorough tier also coverage-guided fuzzing (libFuzzer target sim_case: the fuzzer's bytes drive the campaign's own proptest generator, the campaign's oracle is inside the target)", "§7 C06"),
 "C07": ("sim", "property-based testing (proptest): is_done and discarded/kept tasks vs reference after every action; in the thorough tier also coverage-guided fuzzing (libFuzzer target sim_case: the fuzzer's bytes drive the campaign's own proptest generator, the campaign's oracle is inside the target)", "§7 C07"),
 "C08": ("sim", "property-based testing over harness-owned thread schedules (generated choice lists through crux_core's verif schedule points, incl. points inside the app's view/update and after an event is taken off the queue); per-phase obligations of the guided refinement; plus free-running OS threads (typed Core, legacy API, bincode and JSON bridges) compared phase by phase with a sequential twin and judged by model-free trace invariants", "§5, §7 C08, §14.2, §15.2"),
 "C09": ("sim", "property-based testing (proptest): bincode and JSON bridges: decoded requests, ids, view vs reference; in the thorough tier also coverage-guided fuzzing (libFuzzer target sim_case: the fuzzer's bytes drive the campaign's own proptest generator, the campaign's oracle is inside the target)", "§7 C09"),
 "C10": ("wire", "property-based testing: schema-driven codec + schema-valid value generator against bincode/serde of the real types, both directions; differential against the generated Java classes (TypeGen::java output compiled with javac, generated values decoded and re-encoded by the generated code)", "§6, §7 C10, §16.2"),
 "C11": ("data", "property-based testing (proptest): replays on fresh threads and in fresh processes compared byte for byte; equality of independently built values", "§7 C11"),
 "C12": ("sim", "property-based testing (mutated / random bytes at generated points of generated histories; catch_unwind + counting allocator + abort handler + typed twin) and, in the thorough tier, coverage-guided fuzzing (libFuzzer target bridge_bytes with the same oracle inside)", "§7 C12, §14.2"),
 "C13": ("sim", "property-based testing: long cyclic histories; drop counters on task futures; executor / registry occupancy through hooks; timer set/clear cycles through both time APIs with the cleared-id set watched through a hook; in the thorough tier also coverage-guided fuzzing (libFuzzer target sim_case: the fuzzer's bytes drive the campaign's own proptest generator, the campaign's oracle is inside the target)", "§7 C13, §14.2"),
 "C14": ("data", "property-based testing (proptest): generated request descriptions through both APIs vs an independent description of the wire request", "§7 C14"),
 "C15": ("data", "property-based testing: generated shell answers (any status, headers, body incl. grammar-generated JSON with targeted corruption, errors) vs classification by status class, encoding_rs and serde_json references; in the thorough tier also coverage-guided fuzzing (libFuzzer target http_response with the same oracle inside)", "§7 C15, §15.3"),
 "C16": ("data", "property-based testing (proptest): generated middleware stacks (pass / short-circuit / issuing / retrying / header-adding / Redirect, requests with middleware of their own) and served redirect graphs vs a recursive reference written from the statement", "§7 C16, §15.3"),
 "C17": ("data", "property-based testing (proptest): generated key-value operations and answers through three APIs, typed core and bridge", "§7 C17"),
 "C18": ("data", "property-based testing (proptest): generated interleavings of timer actions vs a per-timer automaton; process-wide id uniqueness", "§7 C18"),
 "C19": ("data", "property-based testing (proptest): boundary-weighted conversions vs i128/u128 arithmetic", "§7 C19"),
 "C20": ("cli", "metamorphic property-based testing: renumbering / reordering of rustdoc descriptions (random, dense, reversed, shifted, targeted same-kind id collisions across crates); generated graphs of synthetic crates (reachability oracle for closedness and crate loading); closedness; declaration order; traced schema", "§7 C20, §16.3, §16.7"),
}
checks = []
for pid, (engine, tech, ref) in props.items():
    checks.append({
        "property_id": pid,
        "quick_cmd": f"./check {pid} quick",
        "thorough_cmd": f"./check {pid} thorough",
        "evidence_file": f"/verif/evidence/{pid}.json",
        "replay_cmd_template": f"./check {pid} --replay {{path}}",
        "engine": engine,
        "level_claimed": {"category": "exploration", "text": "Generated-input search with an explicit oracle, fixed case counts per tier, shrunk replayable counterexamples; it shows the property on everything generated and finds realistic breakages quickly, it does not establish absence.", "design_ref": ref},
        "level_note": "Trusted: the harness (generators, reference models/oracles named in DESIGN), proptest, rustc; assumptions are listed in the evidence file of each run.",
        "technique": tech,
    })
manifest = {
    "version": 1,
    "setup_cmd": "./check --build-all",
    "hooks": {
        "guard": "cargo feature `verif` (crux_core, crux_time, crux_http, crux_cli)",
        "enable": "the harness crates depend on /repo/crux_* by path with features = [\"verif\"]; every check rebuilds them from /repo's working tree",
        "baseline_off_cmd": "cd /repo && RUSTUP_TOOLCHAIN=stable-x86_64-unknown-linux-gnu CARGO_NET_OFFLINE=true cargo nextest run --workspace --no-fail-fast --offline --test-threads 8",
        "source_commits": ["3ef15fe", "d659bec", "5e694e9", "df12c6a", "a6f53c4"],
        "add_only": True,
    },
    "engines": [
        {"name": "sim", "path": "harness/sim + harness/chk-sim", "serves_properties": [p for p, v in props.items() if v[0] == "sim"], "kind_free_text": "property-based testing (proptest): generated programs x schedules x hosts, trace-guided refinement; owned thread schedules for C08"},
        {"name": "wire", "path": "harness/wire + harness/chk-data", "serves_properties": ["C10"], "kind_free_text": "property-based testing: schema-driven codec and generators"},
        {"name": "data", "path": "harness/chk-data", "serves_properties": [p for p, v in props.items() if v[0] == "data"], "kind_free_text": "property-based testing against reference models / differential oracles"},
        {"name": "cli", "path": "harness/chk-cli", "serves_properties": ["C20"], "kind_free_text": "metamorphic property-based testing"},
    ],
    "checks": checks,
    "not_applicable": [],
    "notes": "Known findings (recorded, not repaired) and fixed findings (repaired by fix: commits in /repo) are listed in /verif/known_findings.txt; DESIGN.md §14 is the build-phase record; seeded/ holds 220 independently written breaking changes (seven rounds) with RESULTS.md (rounds 1-3) and RESULTS-round4/5/6/7.md (which check reports which); DESIGN.md §16 is the record of the third session.",
}
json.dump(manifest, open("MANIFEST.json", "w"), indent=1)
print("written", len(checks), "checks")
