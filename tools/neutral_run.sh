#!/bin/bash
# Run the relevant quick checks against behaviour-preserving changes (must all stay silent).
# usage: LAB=/tmp/mut2 tools/neutral_run.sh <dir with <area>/n<k>/patch.diff> [area...]
cd /verif || exit 2
export LAB=${LAB:-/tmp/mut2}
SRC="$1"; shift
tools/mutlab.sh sync || exit 2
ids_for() { case "$1" in
  cmdexec) echo "C01 C02 C03 C04 C05 C06 C07 C08 C09 C12 C13";;
  capexec) echo "C01 C02 C03 C05 C06 C08 C09 C12 C13 C17 C18";;
  bridge) echo "C02 C09 C12 C13 C10 C11 C17 C01";;
  httpmw) echo "C16 C14 C15";;
  httpproto) echo "C11 C14 C15 C16 C10";;
  kvtime) echo "C17 C18 C19 C11 C13 C10";;
  cli) echo "C20";;
  typegen) echo "C10 C20 C09 C12";;
  *) echo "";; esac; }
for area in ${@:-$(ls "$SRC" | grep -v prompt)}; do
  for d in "$SRC/$area"/n*/; do
    [ -f "$d/patch.diff" ] || continue
    echo "##### $area/$(basename $d)"
    tools/mutlab.sh run "$d/patch.diff" $(ids_for $area) 2>&1 | cut -c1-260
  done
done
