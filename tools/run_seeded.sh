#!/bin/bash
# Apply a seeded change to /repo, run the given checks (quick unless TIER is set), undo the change.
# usage: tools/run_seeded.sh <patch.diff> <property id>...
set -u
P="$(readlink -f "$1")"; shift
cd /verif || exit 2
if [ -n "$(git -C /repo status --porcelain --untracked-files=no)" ]; then echo "/repo is not clean"; exit 2; fi
git -C /repo apply "$P" || { echo "PATCH DOES NOT APPLY"; exit 2; }
trap 'git -C /repo checkout -q -- .' EXIT
for id in "$@"; do
  out=$(VERIF_SEED="${VERIF_SEED:-1}" ./check "$id" "${TIER:-quick}" 2>&1); rc=$?
  echo "$id rc=$rc $(echo "$out" | grep -E '^(why|VIOLATION|INCONCLUSIVE|OK)' | cut -c1-330 | tr '\n' '|')"
done
