#!/bin/bash
# Keep a shrunk counterexample found under a seeded change as a regression input, after checking that it
# passes on the unchanged tree. usage: tools/keep_replay.sh <id> <violation.json>...
cd /verif || exit 2
id=$1; shift
for f in "$@"; do
  b=$(basename "$f"); dst=replays/$id/seeded-$b
  mkdir -p replays/$id; cp "$f" "$dst"
  if ./check $id --replay "$dst" | grep -q '^REPLAY-OK'; then echo "kept $dst"; else echo "NOT kept (does not pass on the unchanged tree): $f"; rm -f "$dst"; fi
done
