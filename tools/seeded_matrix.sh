#!/bin/bash
# Run the quick tier of the relevant checks against every seeded change (in the scratch laboratory,
# see mutlab.sh) and write seeded/RESULTS.md. usage: tools/seeded_matrix.sh [<id>...]
cd /verif || exit 2
tools/mutlab.sh sync || exit 2
also() { case "$1" in
  C02-m2) echo "C12";; C06-m2) echo "C01";; C09-m1) echo "C02";; C10-m2) echo "C09 C02";; C11-m1) echo "C14";;
  C12-m2) echo "C02 C09";; C13-m1) echo "C12";; C13-m2) echo "C06";; C17-m2) echo "C10";; C08-m1) echo "C05 C07";;
  C01-m4) echo "C07";; C02-m4) echo "C05";; C08-m4) echo "C09";; C12-m4) echo "C06";; C14-m8) echo "C16";; C08-m9) echo "C01 C05";; C13-m8) echo "C06";; C13-m3) echo "C06";; C13-m4) echo "C12";; *) echo "";; esac; }
OUT=${OUT:-seeded/RESULTS.md}
{ echo "# Seeded changes: which check reports which change (quick tier, seed ${VERIF_SEED:-1})"; echo
  echo "Produced by tools/seeded_matrix.sh at /verif $(git rev-parse --short HEAD) against /repo $(git -C /repo rev-parse --short HEAD)."; echo
  echo "| change | breaks | check | exit | first line |"; echo "|---|---|---|---|---|"; } > $OUT.tmp
for d in ${@:-$(ls seeded | grep -E '^C[0-9]+-m[0-9]+$')}; do
  prop=${d%%-*}
  for id in $prop $(also $d); do
    line=$(tools/mutlab.sh run seeded/$d/patch.diff $id 2>&1 | tail -1)
    rc=$(echo "$line" | sed -n 's/.* rc=\([0-9]*\) .*/\1/p')
    first=$(echo "$line" | sed 's/^[^ ]* rc=[0-9]* //' | cut -c1-160 | tr '|' '/')
    echo "| $d | $prop | $id | $rc | $first |" >> $OUT.tmp
    echo "$d $id rc=$rc"
  done
done
mv $OUT.tmp $OUT
