#!/bin/bash
# A scratch laboratory for running the checks against changed copies of redbadger/crux without
# touching /repo or /verif: /tmp/mut/repo is a git worktree of /repo's HEAD, /tmp/mut/verif a copy of
# /verif whose harness points at it (own build output). Remove with `mutlab.sh clean`.
#   mutlab.sh sync                      (re)create / refresh both copies from the current /repo HEAD and /verif files
#   mutlab.sh run <patch.diff> <id>...  apply the patch to the scratch repo, run `check <id> ${TIER:-quick}` for each id, undo
#   mutlab.sh clean
set -u
LAB=${LAB:-/tmp/mut}
case "${1:-}" in
  sync)
    mkdir -p $LAB
    if [ ! -d $LAB/repo ]; then git -C /repo worktree add -q --detach $LAB/repo HEAD || exit 2; fi
    git -C $LAB/repo checkout -q -- . && git -C $LAB/repo clean -qfd && git -C $LAB/repo checkout -q --detach "$(git -C /repo rev-parse HEAD)" || exit 2
    mkdir -p $LAB/verif
    rsync -a --delete --exclude .git --exclude harness/target --exclude out --exclude evidence --exclude seeded /verif/ $LAB/verif/
    grep -rl '/repo/' $LAB/verif/harness --include=Cargo.toml | xargs sed -i "s#\"/repo/#\"$LAB/repo/#g"
    ;;
  run)
    P="$(readlink -f "$2")"; shift 2
    git -C $LAB/repo checkout -q -- . && git -C $LAB/repo clean -qfd
    git -C $LAB/repo apply "$P" || { echo "PATCH DOES NOT APPLY"; exit 2; }
    for id in "$@"; do
      out=$(cd $LAB/verif && VERIF_REPO=$LAB/repo VERIF_SEED="${VERIF_SEED:-1}" ./check "$id" "${TIER:-quick}" 2>&1); rc=$?
      echo "$id rc=$rc $(echo "$out" | grep -E '^(why|VIOLATION|INCONCLUSIVE|OK)' | cut -c1-330 | tr '\n' '|')"
    done
    git -C $LAB/repo checkout -q -- . && git -C $LAB/repo clean -qfd
    ;;
  clean)
    git -C /repo worktree remove --force $LAB/repo 2>/dev/null; rm -rf $LAB
    ;;
  *) echo "usage: mutlab.sh sync | run <patch> <id>... | clean"; exit 2;;
esac
