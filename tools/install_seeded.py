#!/usr/bin/env python3
"""Copy confirmed seeded changes from a sub-agent output directory into seeded/<id>-<mN>/ with the
confirmation record. usage: install_seeded.py <verify log> <out root> <origin text>"""
import json, re, os, shutil, sys
log = open(sys.argv[1]).read(); root = sys.argv[2]; origin = sys.argv[3]
sections = dict(re.findall(r'##### (C\d+-m\d+)\n(.*?)(?=\n##### |\Z)', log, re.S))
for key, sec in sections.items():
    pid, m = key.split('-')
    src = f'{root}/{pid}/{m}'; dst = f'seeded/{key}'
    sums = re.findall(r'Summary.*', sec)
    if len(sums) != 3 or 'failed' not in sums[1] or ' 0 failed' in sums[1] or '146 passed' not in sums[2] or 'failed' in sums[0]:
        print(key, 'NOT CONFIRMED', sums); continue
    if os.path.exists(dst): shutil.rmtree(dst)
    os.makedirs(dst + '/demo'); shutil.copy(src + '/patch.diff', dst + '/patch.diff')
    for f in os.listdir(src + '/demo'): shutil.copy(f'{src}/demo/{f}', f'{dst}/demo/{f}')
    meta = json.load(open(src + '/meta.json'))
    meta['origin'] = origin
    meta['confirmed_by_me'] = {"in": "the sub-agent's scratch git worktree of /repo under /tmp, reset to HEAD first (removed afterwards)", "demo_without_patch": sums[0].strip(), "demo_with_patch": sums[1].strip(), "pinned_suite_with_patch": sums[2].strip(), "how": "tools/verify_seeded.sh <dir> <worktree>"}
    json.dump(meta, open(dst + '/meta.json', 'w'), indent=1); print(key, sums[1].strip())
